#!/usr/bin/env python3
"""usage: keep_mutant.py <id> <property> <patch> <demo> <notes|-> <needs> <caught_by> [<confirm result line>]
Stores a confirmed property-breaking change under /verif/seeded/<id>/ (patch.diff, demo.py, notes.md, meta.json)."""
import json, os, shutil, subprocess, sys
mid, prop, patch, demo, notes, needs, caught = sys.argv[1:8]
confirm = sys.argv[8] if len(sys.argv) > 8 else ''
d = os.path.join('/verif/seeded', mid)
os.makedirs(d, exist_ok=True)
shutil.copy(patch, os.path.join(d, 'patch.diff'))
shutil.copy(demo, os.path.join(d, 'demo.py'))
if notes != '-':
    shutil.copy(notes, os.path.join(d, 'notes.md'))
head = subprocess.run(['git', '-C', '/repo', 'rev-parse', '--short', 'HEAD'], capture_output=True, text=True).stdout.strip()
meta = {'id': mid, 'property': prop, 'origin': 'independent sub-agent given only the property text and a private worktree',
        'needs_to_manifest': needs,
        'confirmed_by_me': {'at_repo_head': head,
                            'commands': ['tools/confirm_mutant.sh patch.diff demo.py  (scratch worktree of /repo HEAD: apply, '
                                         'run the 80-test suite, run demo with and without the patch)',
                                         'tools/run_on_mutant.sh patch.diff ' + caught.split()[0]],
                            'result': confirm},
        'detected_by': caught}
json.dump(meta, open(os.path.join(d, 'meta.json'), 'w'), indent=1)
print('kept', d)
