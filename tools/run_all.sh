#!/bin/bash
# usage: tools/run_all.sh [seeds...]   — every registered quick check under each seed, from fresh processes; prints one
# line per run and the lines that matter (VIOLATION / INTERNAL) for any that is not silent. Exit 1 if any check is not ok.
cd /verif; seeds="$@"; [ -z "$seeds" ] && seeds="0"
bad=0
for s in $seeds; do
  for c in C01 C02 C03 C04 C05 C06 C07 C08 C09 C10 C11 C12 C13 C14 C15 C16 C17 C18 C19; do
    out=$(VERIF_SEED=$s ./vcheck $c quick 2>&1); rc=$?
    echo "seed=$s $c exit=$rc $(echo "$out" | tail -1 | cut -c1-200)"
    if [ $rc -ne 0 ]; then bad=1; echo "$out" | egrep "^VIOLATION|^  signature|^  what|INTERNAL|Error" | head -8; fi
  done
done
exit $bad
