#!/usr/bin/env python3
"""Generates /verif/MANIFEST.json from the table below (kept in one place so that it stays valid)."""
import json, os, sys
HERE = os.path.dirname(os.path.dirname(os.path.abspath(__file__)))
BASE_CMD = ("cd /repo && /venv/bin/python -m pytest -ra -q -p no:cacheprovider --timeout=900 "
            "--continue-on-collection-errors --junitxml=/tmp/pyplate_baseline.junit.xml")
TRUST = ("Trusted: CPython, numpy, the reference model in pmc/ref.py (exact rationals, self-tested against the "
         "documentation's worked examples), the enumerators' bounds as stated in the evidence file.")
CFG = (" Also run at the quick depth in child processes under other documented configurations of default_solid_density / "
       "default_enzyme_density ({inf, inf}: solids and enzymes without volume; {2.165, 1.35}): the first per quick run, both per thorough run.")
CFG_T = (" The thorough tier also runs the quick depth in child processes under two other configurations of default_solid_density / "
         "default_enzyme_density ({inf, inf}, {2.165, 1.35}).")
# additions of waves 17 / 18 (appended to the level text)
EXTRA = {
 'C01': " Draws from dry sources whose mass is below the storage resolution of a gram; a single source well written as a one-element list.",
 'C02': " Draws from dry sources whose mass is below the storage resolution of a gram; a single source well written as a one-element list.",
 'C03': " Decimal capacities (every tenth of a uL up to 50 uL and of a mL up to 50 mL) filled exactly at construction, by fill_to and by transfer; 47 two-step recipes whose second step fits only on the vessel as the first step left it, and dilutions of one liquid with another: the recipe accepts / refuses what the container operations do.",
 'C04': " Refused create_solution_from / dilute / start_stage calls inside programs; every action on a world whose objects were looked at (all read-only queries) versus one that was not; every tracking query of every baked program of <= 2 steps asked twice with the others in between.",
 'C05': " Container solvents are preceded by a same-named decoy of another composition. Level 'short-container': a quarter more solvent than a solvent container holds (must be refused).",
 'C06': " Every spelling of a specific activity makes the same enzyme; the configured default densities are the ones in force.",
 'C09': " The enzyme is also asked for in mg, uL and mU.",
 'C10': " The wells a view addresses come from the independent resolver; observers also through a sub-slice of a strided slice.",
 'C11': " Mixtures whose parts measure exactly the same in one unit (equimolar solutes, equal volumes).",
 'C12': " Every other solute of the stock is asked for before the judged call. A stock that holds a twin of the solute as bystander; requests for a twin of what the stock holds must be refused.",
 'C13': " Every judged selector is first put to a decoy plate with reversed labels; a list argument comes back unchanged. Zero and negative slice bounds; lists refused at a later element; every judged list preceded by an accepted and a refused list; a list used (remove) and read again.",
 'C14': " Molarity strings are no quantities at 12 entry points; quantities of another kind are no capacities; v/v spellings through dilute / create_solution_from directly and as recipe steps.",
 'C19': " Recipe create_solution steps over every ordered pair / triple of solutes: names listed in the order of the per-solute values.",
}

CHECKS = {
 'C18': dict(
    technique="exhaustive enumeration of one scenario set executed under every enumerated storage configuration in separate processes; differential oracle against the shipped configuration",
    text="~2 100 (quick) / ~20 000 (thorough) scenarios (every single E1 operation, every C03 boundary request away from exact ties, every program of <= 2/3 steps with all tracking queries, every 21st/7th C05/C11/C12 specification) "
         "under 7 / 18 configurations (mol..nmol x L..nL incl. unprefixed and unequal prefixes, internal precision 8 / 12): identical decisions, answers in user units equal within rounding, observers with and without an explicit unit (3.2 M numbers compared per quick run).",
    note="Amounts near the resolution of the coarsest setting and requests exactly at a boundary are excluded; precision 8 is compared coarsely ('within rounding'). " + TRUST,
    ref="DESIGN.md section 4 C18"),
 'C19': dict(
    technique="exhaustive enumeration of magnitudes x units for the rescaling helpers, and of operations / recipe programs for instruction texts; token oracle against the true amounts from the reference model",
    text="Rescaling helpers on {1, 2.5, 9.99} x 10^e (e = -12..6) x signs x units / object kinds; instruction text of ~430 direct operations (sources with liquid / solids only / enzymes only, quantities 1e-9..1 in L, g, mol, U, whole-content transfers, dilute, fill_to, "
         "create_solution(_from), constructor) and of the last step of every program of <= 2/3 steps: every '<number> <unit>[ of <name>]' token must be a true amount of the operation at its displayed precision; instruction histories of plate wells are append-only; a printed zero stands for less than one micro-unit."+CFG,
    note="Lines without an amount token are not judged; the candidate set of true amounts is generous, so only factor-level errors are reported. " + TRUST,
    ref="DESIGN.md section 4 C19"),
 'C09': dict(
    technique="explicit-state exploration over recipe programs x stage layouts; oracle = independent per-step ledger built from prefix bakes (reference model), per-step accounting + stage arithmetic",
    text="Every successfully baking program of <= 3 steps (~11 800 per valuation; quick: one valuation) / <= 4 steps (~270 000, thorough: one valuation to depth 4, the other two to depth 3) x 8-12 stage layouts (incl. an open stage at bake, stages without steps, refused stage calls and refused premature bakes) x every substance x destination sets x timeframes x units: "
         "~11 M get_substance_used answers per quick run compared with the ledger (gain of the destinations + discarded), net decrease => ValueError; the whole-recipe query also with the destinations as tuple, generator, iterator and dict view, and with unit / timeframe / destinations left out; a second recipe built from the (already queried) results of the first performs the last step alone."+CFG_T,
    note="Noise zone (|true net change| within a few storage resolutions) is don't-care between ValueError and 0; displayed precision. " + TRUST,
    ref="DESIGN.md section 4 C09"),
 'C15': dict(
    technique="explicit-state exploration over recipe programs x stage layouts; oracle = the same ledger: totals at start/end of the timeframe, per-step gains/losses per object and per well",
    text="Same programs and layouts as C09 x every used container and plate (per well) x timeframes x 5 units x before/after: get_amount_remaining, get_container_flows in/out, non-negativity and the identity in - out = change of amount remaining (2.5 M queries per quick run)."+CFG_T,
    note="Objects not touched in the timeframe are not queried. " + TRUST,
    ref="DESIGN.md section 4 C15"),
 'C07': dict(
    technique="exhaustive enumeration of plate shapes x slice geometries x operations, differential oracle: the same operation folded over free-standing copies of the addressed wells",
    text="6 plate-shape pairs with non-uniform wells x every slice geometry (single wells, all rectangles, stepped, lists, whole Plate) x container<->slice in 4 units and beyond capacity/content, remove, fill_to, "
         "slice->slice over all geometry pairs, two versions of one plate under the same name, same-plate families, sub-slices of slices; directly, as the only step of a recipe, and as the second step after a step that changed the addressed plates (~33 000 cases quick)."+CFG,
    note="Known finding (recipe fill_to on a slice fills the whole plate) is identified by an explicit model of that behaviour. Container-level correctness of the folded operation is C01/C02/C03/C11/C17's job. " + TRUST,
    ref="DESIGN.md section 4 C07"),
 'C08': dict(
    technique="explicit-state exploration over recipe programs (BFS, state = bake of the prefix); oracle in inductive form bake(p.s) == eager_apply(bake(p), s)",
    text="Every program of <= 3 (quick) / 4 (thorough) steps over a 30-action vocabulary (~10 000 / ~300 000 programs) is baked in a fresh Recipe and compared step-wise with the eager interpreter: outcome class, key set, every object; plus 'no effect before bake', the same program with a refused premature bake() after every step that leaves a declared object unused, steps refused when added although the eager operation succeeds, and the same program with the outside objects declared through other forms of uses()."+CFG,
    note="Known finding (recipe fill_to on a slice) identified by an explicit model of its behaviour; extensions of failing prefixes are pruned. " + TRUST,
    ref="DESIGN.md section 4 C08"),
 'C05': dict(
    technique="exhaustive enumeration of the solution-specification grammar; feasibility classified by an exact rational linear solve; results judged by definition against the reference model",
    text="~17 000 specifications per valuation (6 solute lists x 5 solvents incl. 3 containers x 4 feasibility levels x which-two-of-three x every concentration spelling / quantity / total unit, "
         "+ broadcast, inconsistent and wrong-kind families): key set, positivity, every stated concentration / quantity / total, uniform solvent aliquot and conservation, accept/refuse decision, identity of the returned vessels; an argument-shape family (one value per solute, two of three keywords), per-solute units of different kinds, three solutes with non-adjacent shared denominators; every accepted request also as a recipe step."+CFG,
    note="Values come from three valuations and four feasibility levels; don't-care near boundaries, for singular specs, and where the solvent container already holds the solute. " + TRUST,
    ref="DESIGN.md section 4 C05"),
 'C11': dict(
    technique="exhaustive enumeration of dilute/fill_to specifications derived from the current state by the reference model; results judged by definition",
    text="7 mixture classes x solute x solvent (present/other) x 17 concentration spellings x 6 target factors x 4 capacity classes for dilute; 10 unit spellings x 4 factors x capacities x 3 solvent kinds for fill_to: "
         "only the solvent increases, target met, capacity respected, refusal above the current concentration / below the current quantity; every request with an unlimited or just-too-small vessel also as a recipe step (same outcome and container as the direct call); every accepted dilution also under a new name; enzyme fillers in every unit (a filler that cannot be measured in the unit of the target must be refused); serial dilutions (the diluted container is diluted again, directly and after a transfer)."+CFG,
    note="Factor 1 and a vessel whose capacity equals the result volume exactly are don't-care. " + TRUST,
    ref="DESIGN.md section 4 C11"),
 'C12': dict(
    technique="exhaustive enumeration of create_solution_from specifications; feasibility by an exact 2x2 rational solve; results judged by definition incl. uniform aliquots and conservation",
    text="5 stocks x 4 solvent forms x 16 concentration spellings x 4 ratios x 7 quantity units x 5 sizes (down to 1.2e-7 of the stock) x input vessels {unlimited, 2 % head-room} (33 280 specs per valuation); name and capacity of the residual vessels, sanity of every returned vessel."+CFG,
    note="Ratio 1 and whole-stock requests are don't-care. " + TRUST,
    ref="DESIGN.md section 4 C12"),
 'C17': dict(
    technique="exhaustive enumeration of mixtures x selectors x object forms, direct and as recipe step, against the reference model and a ledger of removed amounts",
    text="All 31 non-empty mixtures of 5 substances x 9 selectors, plus 66 mixtures that hold a substance next to a twin (another substance carrying its name) x 12 selectors, x {container, whole plate, 12 slice geometries, 3 sub-slices} x {direct, recipe}, plus two plates without any liquid and drained containers (amounts 0.0): exact contents (keyed by what a substance is, not by Substance.__eq__), volume, frame, and the link to get_substance_used / get_container_flows."+CFG,
    note=TRUST,
    ref="DESIGN.md section 4 C17"),
 'C06': dict(
    technique="exhaustive enumeration of the finite conversion table (substance kinds x unit pairs x prefixes x configurations) against an exact-rational reference",
    text="All 41 x 41 prefixed unit pairs x 11 substances x 6 amounts of Unit.convert_from (factor, zero/reject cells, linearity, round trip), "
         "composition over 6 x 41 x 6 unit triples, the string front end, the storage conversions and the standard-format conversion, under 3/9 default-density configurations in separate processes.",
    note="Amounts and substance parameters come from fixed tables (linearity extends the factor check to all amounts up to float error). " + TRUST,
    ref="DESIGN.md section 4 C06"),
 'C13': dict(
    technique="exhaustive enumeration of the documented selector grammar on all small plate shapes and labelings against an independent resolver",
    text="Every selector expression of the documented grammar on every plate R x C (R, C <= 3 quick / 4 thorough) under 4 labelings (incl. labels with blanks / differing only in case, judged as given), tall plates for labels beyond 'Z', "
         "and a reject family; wells, order, shape and size compared with a resolver written from the documentation (~0.38 M / 2 M selectors).",
    note="Don't-care forms (step <= 0, start after stop, bool indices, empty/duplicate lists) are executed but not judged. " + TRUST,
    ref="DESIGN.md section 4 C13, Appendix B"),
 'C14': dict(
    technique="exhaustive enumeration of the quantity/concentration string grammars against an independent parser, plus equivalence classes pushed through the API",
    text="All value x prefix x base quantity strings, all value x numerator x optional count x denominator concentration strings, M/m with every prefix, percent forms under "
         "2-3 settings of default_weight_volume_units, ~150 malformed inputs (the quantity ones also through Unit.convert, Container(), transfer, fill_to, Plate()), every string preceded by its look-alike spellings, and equivalence classes through create_solution, dilute, create_solution_from, Container(), transfer, fill_to.",
    note="Parsed concentrations are compared at the documented internal precision; white-space variants and the documented-but-unimplemented 'p' prefix are don't-care. " + TRUST,
    ref="DESIGN.md section 4 C14"),
 'C01': dict(
    technique="explicit-state exploration of the implementation: BFS over operation histories with canonical-state hashing; invariant (conservation + frame) on every transition",
    text="Every transfer reachable by the bounded exhaustive enumeration (all ordered pairs of source/destination forms incl. same-plate "
         "regions x 4 units from 3 base states, every unit spelling x size x pairing form, and all histories of <= 3/4 operations over a "
         "48-action alphabet, plus a world of vessels holding substances that share a name, 44 actions to depth 2/3) is executed on the real API; totals per substance identity (name, kind, parameters; never through Substance.__eq__) over the whole world and bit-identity of untouched wells are checked on each; the geometry sweep also with every transfer made twice through the same slice objects; requests for almost everything a source holds (fractions 0.9999 .. 0.99999999 of the reached content), a world with femtomole traces, and lists that name a well twice (conservation is judged for every returning transfer)."+CFG,
    note="Bounded depth and data tables (3 valuations); tolerance 1e-9 storage units per written well. " + TRUST,
    ref="DESIGN.md section 4 C01"),
 'C02': dict(
    technique="explicit-state exploration of the implementation in lock-step with an exact-rational reference model (per-pair aliquot), plus exhaustive chains over a ring alphabet",
    text="Same enumerated space as C01; every accepted transfer is compared pair by pair with the reference aliquot (one common fraction, size q in the unit of q); "
         "all chains of <= 5/7 transfers over an 8-action ring are executed with per-step aliquot check, cumulative conservation and a lock-step reference; an accepted transfer of more than the source holds in the unit of q is a violation."+CFG,
    note="Quantities are multiples of the documented internal resolution; tolerance accounts for the storage resolution (1e-10 per stored amount). " + TRUST,
    ref="DESIGN.md section 4 C02"),
 'C03': dict(
    technique="explicit-state exploration with a state-sanity invariant, plus exhaustive boundary enumeration (below/at/above every feasibility constraint) classified by the reference model",
    text="Sanity (no negative amount/volume, volume <= capacity) of every object returned, and feasibility (a transfer / remove / fill_to that clearly fits the reached state must not raise, one that clearly over-draws / over-fills / undershoots must not return; nothing but ValueError/TypeError/RuntimeError is ever raised; no non-finite amount) along every history of the full operation menu incl. infeasible requests (depth 2/3) and of C01's 48-action history alphabet (depth 3/4); "
         "~3 500 boundary cases (all exact-capacity fills 1..200 mL / 0.1..5.0 mL in three spellings, over-draw/negative/zero/empty in L, g, mol, U, destination capacity, fill_to, dilute, create_solution(_from), drained vessels), directly and as recipe steps; the same sanity judgement on every object handed out by the bake of every recipe program of <= 2/3 steps, and a recipe refused for infeasibility stays refused on re-bake."+CFG,
    note="'at the boundary' is must-accept only for decimal-exact boundaries; margins 0.1 %-5 %. " + TRUST,
    ref="DESIGN.md section 4 C03"),
 'C04': dict(
    technique="explicit-state exploration with structural fingerprints of every argument and every earlier result before/after each call (returned or raised)",
    text="Along every history of the full menu incl. failing calls, every argument and every object produced earlier is re-fingerprinted after each call; "
         "all (18 slice geometries x 7 x 7 operation pairs) with one slice object held across both calls; every action as recipe (declare, add, bake, re-use results); every list handed to a call (solutes, concentrations, quantities, initial contents) compared with its value before; held slices also as source / destination of plate-to-plate transfers; every Substance (attributes and hash) fingerprinted around every call; the whole recipe (results, stages, step records) fingerprinted around the refused bake of every recipe program of <= 2/3 steps."+CFG,
    note="Fingerprints cover name, exact contents, volume, capacity, instructions, every well, labels, slice bindings, substance attributes. " + TRUST,
    ref="DESIGN.md section 4 C04"),
 'C10': dict(
    technique="explicit-state exploration with an observer monitor: every observer of every changed object compared with the exact-rational definition on every reached state",
    text="On every state of the full-menu BFS and the geometry/unit sweeps: stored volume vs contents, get_volume (7 units), get_concentration (6 substances x 26 unit spellings), "
         "plate/slice get_volumes, get_moles, get_volume, get_substances."+CFG,
    note="Volumes below ten internal resolutions are not judged per litre. " + TRUST,
    ref="DESIGN.md section 4 C10"),
 'C16': dict(
    technique="explicit-state model checking: TLC enumerates the TLA+ lifecycle model; every edge of the dumped "
              "state graph is replayed on the real Recipe by a product search over (model state, implementation fingerprint)",
    text="All reachable states and edges of the bounded TLA+ lifecycle model (quick: 2 308 states / 89 678 edges; thorough: "
         "two configurations, 32 370 states / 1.65 M edges) are enumerated by TLC and every edge is executed on the real "
         "pyplate.Recipe: outcome class of each call, step count, declared names, stage ranges, lock flag, and the full "
         "implementation digest (results, step records, after bake every tracking answer) after each refused call, a refused bake and nine calls with rejected arguments included.",
    note="Bounded: <= 3 (quick) / 4 (thorough) accepted steps, 2-3 outside objects, 2-3 recipe-created objects, 1-2 stage names; "
         "the model is written from the property text; TLC 1.8.0 is trusted to enumerate it. " + TRUST,
    ref="DESIGN.md section 4 C16, Appendix A"),
}
NOT_YET = "no check registered yet (under construction; see DESIGN.md section 8 build order)"

def main():
    props = [json.loads(l) for l in open(os.path.join(HERE, 'properties.jsonl'))]
    checks, na = [], []
    for p in props:
        pid = p['id']
        c = CHECKS.get(pid)
        if not c:
            na.append({'property_id': pid, 'reason': NOT_YET})
            continue
        checks.append({
            'property_id': pid,
            'quick_cmd': f'./vcheck {pid} quick',
            'thorough_cmd': f'./vcheck {pid} thorough',
            'evidence_file': f'/verif/evidence/{pid}.json',
            'replay_cmd_template': './vcheck --replay {path}',
            'engine': 'pmc',
            'level_claimed': {'category': 'model_checking', 'text': c['text'] + EXTRA.get(pid, ''), 'design_ref': c['ref']},
            'level_note': c['note'],
            'technique': c['technique'],
        })
    m = {
        'version': 1,
        'setup_cmd': './setup.sh',
        'hooks': {'guard': 'PYPLATE_VERIF',
                  'enable': 'no hooks exist: every observation goes through the public API and the PYPLATE_CONFIG seam; '
                            'the guard name is reserved and unused (vcheck unsets it)',
                  'baseline_off_cmd': BASE_CMD, 'source_commits': [], 'add_only': True},
        'engines': [{'name': 'pmc', 'path': '/verif/pmc',
                     'serves_properties': [c['property_id'] for c in checks],
                     'kind_free_text': 'hand-written explicit-state explorer for Python (bounded exhaustive enumeration of '
                                       'operation histories, recipe programs, input grammars and configurations, run on the '
                                       'real implementation in lock-step with an exact-rational reference model) + TLC for '
                                       'the recipe lifecycle model'}],
        'checks': checks,
        'notes': 'Repairs of genuine defects are separate "fix:" commits in /repo, listed as fixed: lines in '
                 '/verif/KNOWN_FINDINGS.txt; unrepaired genuine defects are known: lines there. See DESIGN.md.',
        'not_applicable': na,
    }
    json.dump(m, open(os.path.join(HERE, 'MANIFEST.json'), 'w'), indent=1)
    print(f"{len(checks)} checks, {len(na)} not claimed")

if __name__ == '__main__':
    main()
