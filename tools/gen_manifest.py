#!/usr/bin/env python3
"""Generates /verif/MANIFEST.json from the table below (kept in one place so that it stays valid)."""
import json, os, sys
HERE = os.path.dirname(os.path.dirname(os.path.abspath(__file__)))
BASE_CMD = ("cd /repo && /venv/bin/python -m pytest -ra -q -p no:cacheprovider --timeout=900 "
            "--continue-on-collection-errors --junitxml=/tmp/pyplate_baseline.junit.xml")
TRUST = ("Trusted: CPython, numpy, the reference model in pmc/ref.py (exact rationals, self-tested against the "
         "documentation's worked examples), the enumerators' bounds as stated in the evidence file.")
CHECKS = {
 'C16': dict(
    technique="explicit-state model checking: TLC enumerates the TLA+ lifecycle model; every edge of the dumped "
              "state graph is replayed on the real Recipe by a product search over (model state, implementation fingerprint)",
    text="All reachable states and edges of the bounded TLA+ lifecycle model (quick: 2 786 states / 78 138 edges; thorough: "
         "two configurations, 40 085 states / 1.5 M edges) are enumerated by TLC and every edge is executed on the real "
         "pyplate.Recipe: outcome class of each call, step count, declared names, stage ranges, lock flag, and the full "
         "implementation digest (after bake including every tracking answer) after each refused call.",
    note="Bounded: <= 3 (quick) / 4 (thorough) accepted steps, 2-3 outside objects, 2-3 recipe-created objects, 1-2 stage names; "
         "the model is written from the property text; TLC 1.8.0 is trusted to enumerate it. " + TRUST,
    ref="DESIGN.md section 4 C16, Appendix A"),
}
NOT_YET = "no check registered yet (under construction; see DESIGN.md section 8 build order)"

def main():
    props = [json.loads(l) for l in open(os.path.join(HERE, 'properties.jsonl'))]
    checks, na = [], []
    for p in props:
        pid = p['id']
        c = CHECKS.get(pid)
        if not c:
            na.append({'property_id': pid, 'reason': NOT_YET})
            continue
        checks.append({
            'property_id': pid,
            'quick_cmd': f'./vcheck {pid} quick',
            'thorough_cmd': f'./vcheck {pid} thorough',
            'evidence_file': f'/verif/evidence/{pid}.json',
            'replay_cmd_template': './vcheck --replay {path}',
            'engine': 'pmc',
            'level_claimed': {'category': 'model_checking', 'text': c['text'], 'design_ref': c['ref']},
            'level_note': c['note'],
            'technique': c['technique'],
        })
    m = {
        'version': 1,
        'setup_cmd': './setup.sh',
        'hooks': {'guard': 'PYPLATE_VERIF',
                  'enable': 'no hooks exist: every observation goes through the public API and the PYPLATE_CONFIG seam; '
                            'the guard name is reserved and unused (vcheck unsets it)',
                  'baseline_off_cmd': BASE_CMD, 'source_commits': [], 'add_only': True},
        'engines': [{'name': 'pmc', 'path': '/verif/pmc',
                     'serves_properties': [c['property_id'] for c in checks],
                     'kind_free_text': 'hand-written explicit-state explorer for Python (bounded exhaustive enumeration of '
                                       'operation histories, recipe programs, input grammars and configurations, run on the '
                                       'real implementation in lock-step with an exact-rational reference model) + TLC for '
                                       'the recipe lifecycle model'}],
        'checks': checks,
        'notes': 'Repairs of genuine defects are separate "fix:" commits in /repo, listed as fixed: lines in '
                 '/verif/KNOWN_FINDINGS.txt; unrepaired genuine defects are known: lines there. See DESIGN.md.',
        'not_applicable': na,
    }
    json.dump(m, open(os.path.join(HERE, 'MANIFEST.json'), 'w'), indent=1)
    print(f"{len(checks)} checks, {len(na)} not claimed")

if __name__ == '__main__':
    main()
