#!/bin/bash
# usage: tools/run_on_mutant.sh <patch.diff> <Cxx> [<Cyy> ...]   (applies the patch to /repo, runs quick checks, reverts)
patch=$(readlink -f "$1"); shift
cd /repo || exit 2
[ -z "$(git status --porcelain -- pyplate)" ] || { echo "/repo not clean"; exit 2; }
git apply "$patch" 2>/dev/null || git apply -3 "$patch" 2>/dev/null || { echo "patch does not apply"; git reset -q --hard HEAD; exit 3; }
git reset -q 2>/dev/null
trap 'git -C /repo reset -q --hard HEAD' EXIT
cd /verif
for c in "$@"; do
  out=$(VERIF_SEED=${VERIF_SEED:-0} ./vcheck "$c" ${TIER:-quick} 2>&1); rc=$?
  echo "== $c exit=$rc  $(echo "$out" | grep -c '^VIOLATION') violation line(s)"
  echo "$out" | egrep "^  signature|^  what|INTERNAL|Error" | head -${LINES_MAX:-6}
done
