#!/bin/bash
# usage: tools/try_mutant.sh <patch.diff> <demo.py> <Cxx> [<Cyy>...]  — confirm + run checks in a scratch worktree via PMC_SRC
# (never touches /repo's working tree, /verif/evidence or /verif/replays)
patch=$(readlink -f "$1"); demo=$(readlink -f "$2"); shift 2
scratch=$(mktemp -d /tmp/try.XXXXXX); wt=$scratch/wt
git -C /repo worktree add -q --detach "$wt" HEAD || exit 2
trap 'git -C /repo worktree remove --force "$wt"; rm -rf "$scratch"' EXIT
cd "$wt"
/venv/bin/python "$demo" >$scratch/without.log 2>&1; without=$?
git apply "$patch" 2>/dev/null || git apply -3 "$patch" 2>/dev/null || { echo "RESULT: patch does not apply"; exit 3; }
suite=$(/venv/bin/python -m pytest -q -p no:cacheprovider --timeout=900 tests 2>&1 | tail -1)
/venv/bin/python "$demo" >$scratch/with.log 2>&1; with=$?
echo "RESULT: suite_with_patch='$suite' demo_with_patch_exit=$with demo_without_patch_exit=$without"
cd /verif
for c in "$@"; do
  out=$(PMC_SRC=$wt PMC_OUT=$scratch/out VERIF_SEED=${VERIF_SEED:-0} ./vcheck "$c" ${TIER:-quick} 2>&1); rc=$?
  echo "== $c exit=$rc  $(echo "$out" | grep -c '^VIOLATION') violation line(s)"
  echo "$out" | egrep "^  signature|^  what|INTERNAL|Error" | cut -c1-330 | head -${LINES_MAX:-4}
done
