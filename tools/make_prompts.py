#!/usr/bin/env python3
"""usage: make_prompts.py <round dir, e.g. /tmp/mut4> <themes.json>
Writes <round>/prompts/<Cxx>.txt for every property in themes.json ({"Cxx": {"avoid": "...", "theme": "..."}}).
The prompt gives a sub-agent ONLY the property text and a private worktree (nothing from /verif)."""
import json, os, sys
rnd, themes = sys.argv[1], json.load(open(sys.argv[2]))
props = {json.loads(l)['id']: json.loads(l) for l in open('/verif/properties.jsonl')}
TEMPLATE = open(os.path.join(os.path.dirname(__file__), 'prompts', 'TEMPLATE.txt')).read()
os.makedirs(os.path.join(rnd, 'prompts'), exist_ok=True)
for pid, t in themes.items():
    p = props[pid]
    txt = (TEMPLATE.replace('{ROOT}', f"{rnd}/{pid}").replace('{PID}', pid).replace('{TITLE}', p['title'])
           .replace('{STATEMENT}', p['statement']).replace('{QUANT}', p['quantifier']['text'])
           .replace('{FILES}', ', '.join(p['anchors']['files'])).replace('{AVOID}', t['avoid']).replace('{THEME}', t['theme']))
    open(os.path.join(rnd, 'prompts', pid + '.txt'), 'w').write(txt)
    print(pid, len(txt))
