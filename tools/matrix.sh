#!/bin/bash
# usage: tools/matrix.sh <outfile> [mutant ids...]   — runs every quick check against every seeded change in a scratch
# worktree (PMC_SRC), never touching /repo, /verif/evidence or /verif/replays. One line per (mutant, check).
out=$(readlink -f "$1"); shift
ids="$@"; [ -z "$ids" ] && ids=$(ls /verif/seeded)
scratch=$(mktemp -d /tmp/matrix.XXXXXX)
for id in $ids; do
  wt=$scratch/wt
  git -C /repo worktree add -q --detach "$wt" HEAD || continue
  if ( cd "$wt" && (git apply /verif/seeded/$id/patch.diff 2>/dev/null || git apply -3 /verif/seeded/$id/patch.diff 2>/dev/null) ); then
    for c in C01 C02 C03 C04 C05 C06 C07 C08 C09 C10 C11 C12 C13 C14 C15 C16 C17 C18 C19; do
      o=$(cd /verif && PMC_SRC=$wt PMC_OUT=$scratch/out ./vcheck $c quick 2>&1); rc=$?
      n=$(echo "$o" | grep -c '^VIOLATION')
      echo "$id $c exit=$rc violations=$n $(echo "$o" | grep -m1 '^  signature' | cut -c1-160)" >> "$out"
    done
  else
    echo "$id - patch-does-not-apply" >> "$out"
  fi
  git -C /repo worktree remove --force "$wt"
done
rm -rf "$scratch"
echo done >> "$out"
