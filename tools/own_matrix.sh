#!/bin/bash
# usage: tools/own_matrix.sh <outfile> [mutant ids...] — every seeded change against the quick check of ITS OWN property, in a
# scratch worktree of /repo HEAD (PMC_SRC), never touching /repo, /verif/evidence or /verif/replays. One line per mutant.
out=$(readlink -f "$1"); shift
ids="$@"; [ -z "$ids" ] && ids=$(ls /verif/seeded)
scratch=$(mktemp -d /tmp/ownmatrix.XXXXXX)
for id in $ids; do
  wt=$scratch/wt; c=${id%%-*}
  git -C /repo worktree add -q --detach "$wt" HEAD || continue
  if ( cd "$wt" && (git apply /verif/seeded/$id/patch.diff 2>/dev/null || git apply -3 /verif/seeded/$id/patch.diff 2>/dev/null) ); then
    o=$(cd /verif && PMC_SRC=$wt PMC_OUT=$scratch/out ./vcheck $c quick 2>&1); rc=$?
    n=$(echo "$o" | grep -c '^VIOLATION')
    echo "$id $c exit=$rc violations=$n $(echo "$o" | grep -m1 '^  signature' | cut -c1-160)" >> "$out"
  else
    echo "$id - patch-does-not-apply" >> "$out"
  fi
  git -C /repo worktree remove --force "$wt"
done
rm -rf "$scratch"
echo done >> "$out"
