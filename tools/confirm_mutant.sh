#!/bin/bash
# usage: tools/confirm_mutant.sh <patch.diff> <demo.py>
# Confirms in a scratch worktree of /repo's HEAD (outside /repo and /verif): patch applies, suite passes with it,
# demo fails with it and passes without it. Removes the worktree afterwards.
patch=$(readlink -f "$1"); demo=$(readlink -f "$2")
wt=$(mktemp -d /tmp/mutconfirm.XXXXXX)/wt
git -C /repo worktree add -q --detach "$wt" HEAD || exit 2
trap 'git -C /repo worktree remove --force "$wt"; rm -rf "$(dirname "$wt")"' EXIT
cd "$wt"
if ! git apply "$patch" 2>/dev/null; then
  if ! git apply -3 "$patch" 2>/dev/null; then echo "RESULT: patch does not apply"; exit 3; fi
fi
suite=$(/venv/bin/python -m pytest -q -p no:cacheprovider --timeout=900 tests 2>&1 | tail -1)
/venv/bin/python "$demo" >/tmp/mutconfirm_demo_with.log 2>&1; with=$?
git checkout -q -- . ; git reset -q --hard HEAD
/venv/bin/python "$demo" >/tmp/mutconfirm_demo_without.log 2>&1; without=$?
echo "RESULT: suite_with_patch='$suite' demo_with_patch_exit=$with demo_without_patch_exit=$without"
grep -m1 pyplate /tmp/mutconfirm_demo_with.log
