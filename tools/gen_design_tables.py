#!/usr/bin/env python3
"""Rewrites the generated blocks of DESIGN.md (between <!-- BEGIN:x --> / <!-- END:x --> markers) from
seeded/*/meta.json, evidence/*.json and KNOWN_FINDINGS.txt."""
import glob, json, os, re
HERE = os.path.dirname(os.path.dirname(os.path.abspath(__file__)))

def block_seeded():
    rows = ["| id | property | what the change needs in order to manifest | detected by |", "|----|----------|--------------------------------------------|-------------|"]
    for d in sorted(glob.glob(os.path.join(HERE, 'seeded', '*'))):
        m = json.load(open(os.path.join(d, 'meta.json')))
        rows.append(f"| {m['id']} | {m['property']} | {m['needs_to_manifest'].replace('|', '/')} | {m['detected_by'].replace('|', '/')} |")
    return '\n'.join(rows)

def block_asbuilt():
    rows = ["| property | tier of the committed evidence | states | transitions | traces validated against the implementation | evaluations | distinct non-trivial | wall s |",
            "|----------|------|--------|-------------|--------|-------------|----------|--------|"]
    for f in sorted(glob.glob(os.path.join(HERE, 'evidence', 'C*.json'))):
        e = json.load(open(f)); c = e['coverage']
        rows.append(f"| {e['property_id']} | {e['tier']} | {c['states']} | {c['transitions']} | {c['traces_validated_against_impl']} | {c['evaluations']} | {c['distinct_nontrivial']} | {e['wall_s']} |")
    return '\n'.join(rows)

def block_findings():
    out = []
    for line in open(os.path.join(HERE, 'KNOWN_FINDINGS.txt')):
        if line.startswith(('known:', 'fixed:')):
            out.append('* `' + line.strip().replace('`', "'") + '`')
    return '\n'.join(out)

def block_model():
    return '```tla\n' + open(os.path.join(HERE, 'models', 'RecipeLifecycle.tla')).read().rstrip('\n') + '\n```'

def main():
    p = os.path.join(HERE, 'DESIGN.md')
    s = open(p).read()
    for name, fn in (('SEEDED', block_seeded), ('ASBUILT', block_asbuilt), ('FINDINGS', block_findings), ('MODEL', block_model)):
        pat = re.compile(rf"(<!-- BEGIN:{name} -->\n).*?(<!-- END:{name} -->)", re.S)
        if not pat.search(s):
            print('marker missing', name); continue
        s = pat.sub(lambda m: m.group(1) + fn() + '\n' + m.group(2), s)
    open(p, 'w').write(s)
    print('DESIGN.md blocks regenerated')

if __name__ == '__main__':
    main()
