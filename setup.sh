#!/bin/bash
# Environment self-test; builds nothing (the framework is pure Python + TLC; pyplate is imported from /repo's tree).
cd "$(dirname "$(readlink -f "$0")")" || exit 2
set -e
/venv/bin/python -c "import numpy, pandas, yaml, tabulate" 
command -v tlc >/dev/null
chmod +x vcheck
PMC_SRC="${PMC_SRC:-/repo}" PYTHONHASHSEED=0 /venv/bin/python -m pmc.selftest
echo "setup ok"
