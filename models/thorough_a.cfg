CONSTANTS
 Declarable = {"A","B","P"}
 Containers = {"X"}
 Solutions = {"S"}
 Dilutions = {"F"}
 SolventLike = {"A","U"}
 Undeclared = {"U"}
 StageNames = {"s1"}
 MaxSteps = 4
INIT Init
NEXT Next
INVARIANT TypeOK
INVARIANT UndeclaredNeverIn
PROPERTY LockedIsForever
