---------------------------- MODULE RecipeLifecycle ----------------------------
(* Lifecycle discipline of pyplate.Recipe, as stated by property C16.             *)
(* Written from the property, not from the code.  Every API call is a total       *)
(* action: a refused call is a transition that only records its outcome in        *)
(* `last`, so every edge of the dumped state graph carries the outcome the        *)
(* implementation must show.  Every edge of the graph is replayed against the     *)
(* real Recipe class by pmc/checks/C16.py.                                        *)
EXTENDS Naturals, FiniteSets
CONSTANTS Containers, Solutions, Dilutions, SolventLike,
          Declarable,   \* objects built outside the recipe and handed to uses(): e.g. {"A","P"}
          Undeclared,   \* objects that are never declared: {"U"}
          StageNames,   \* e.g. {"s1","s2"}
          MaxSteps
VARIABLES declared,     \* names the recipe knows (uses() or create_*)
          touched,      \* names mentioned by at least one step
          open,         \* the open stage, or "none"
          ostart,       \* number of steps when the open stage was started (0 when none is open)
          closed,       \* set of <<stage, first step, one past last step>>
          nsteps, phase, last
vars == <<declared, touched, open, ostart, closed, nsteps, phase, last>>
Creatable == Containers \cup Solutions \cup Dilutions
Names == Declarable \cup Creatable \cup Undeclared
ClosedNames == {c[1] : c \in closed}

Init == /\ declared = {} /\ touched = {} /\ open = "none" /\ ostart = 0 /\ closed = {}
        /\ nsteps = 0 /\ phase = "building" /\ last = "init"

Refuse(exc) == /\ last' = exc
               /\ UNCHANGED <<declared, touched, open, ostart, closed, nsteps, phase>>
Locked == phase = "locked"
Room == nsteps < MaxSteps          \* exploration bound only: a step-adding call at the cap is not explored

\* uses(o): o is an outside object
Uses(o) == /\ phase \in {"building", "locked"}
           /\ IF Locked THEN Refuse("RuntimeError")
              ELSE IF o \in declared THEN Refuse("ValueError")
              ELSE /\ declared' = declared \cup {o} /\ last' = "ok"
                   /\ UNCHANGED <<touched, open, ostart, closed, nsteps, phase>>

\* create_container / create_solution / create_solution_from under name n, reading the set `reads` of objects
Create(n, reads) ==
           /\ phase \in {"building", "locked"}
           /\ IF Locked THEN Refuse("RuntimeError")
              ELSE IF ~(reads \subseteq declared) THEN Refuse("ValueError")
              ELSE IF n \in declared THEN Refuse("ValueError")
              ELSE /\ Room
                   /\ declared' = declared \cup {n}
                   /\ touched' = touched \cup {n} \cup reads
                   /\ nsteps' = nsteps + 1 /\ last' = "ok"
                   /\ UNCHANGED <<open, ostart, closed, phase>>

\* transfer / remove / dilute / fill_to mentioning the set `objs`
Step(objs) == /\ phase \in {"building", "locked"}
              /\ IF Locked THEN Refuse("RuntimeError")
                 ELSE IF ~(objs \subseteq declared) THEN Refuse("ValueError")
                 ELSE /\ Room
                      /\ touched' = touched \cup objs
                      /\ nsteps' = nsteps + 1 /\ last' = "ok"
                      /\ UNCHANGED <<declared, open, ostart, closed, phase>>

OnOne(o) == Step({o})
Transfer(o, p) == o # p /\ Step({o, p})

StartStage(s) == /\ phase \in {"building", "locked"}
                 /\ IF Locked THEN Refuse("RuntimeError")
                    ELSE IF s \in ClosedNames \/ open # "none" THEN Refuse("ValueError")
                    ELSE /\ open' = s /\ ostart' = nsteps /\ last' = "ok"
                         /\ UNCHANGED <<declared, touched, closed, nsteps, phase>>

StartReserved == /\ phase \in {"building", "locked"}
                 /\ Refuse(IF Locked THEN "RuntimeError" ELSE "ValueError")

EndStage(s) == /\ phase \in {"building", "locked"}
               /\ IF Locked THEN Refuse("RuntimeError")
                  ELSE IF open # s THEN Refuse("ValueError")
                  ELSE /\ open' = "none" /\ ostart' = 0
                       /\ closed' = closed \cup {<<s, ostart, nsteps>>} /\ last' = "ok"
                       /\ UNCHANGED <<declared, touched, nsteps, phase>>

\* a bake that is refused (a declared object is unused) is a refused call like any other: nothing changes, the
\* stage stays open, the recipe can be completed and baked later
Bake == /\ phase \in {"building", "locked"}
        /\ IF Locked THEN Refuse("RuntimeError")
           ELSE IF touched # declared THEN Refuse("ValueError")
           ELSE /\ phase' = "locked" /\ last' = "ok"
                /\ open' = "none" /\ ostart' = 0
                /\ closed' = IF open = "none" THEN closed ELSE closed \cup {<<open, ostart, nsteps>>}
                /\ UNCHANGED <<declared, touched, nsteps>>

\* a create_* call under the name of an outside object that is already declared, and uses() of an outside
\* object carrying the name of an object the recipe created: refusal-only actions (the accepting case of the
\* first is not explored, the accepting case of the second is Uses on a Declarable)
ClashCreate(n) == /\ (Locked \/ n \in declared)
                  /\ Refuse(IF Locked THEN "RuntimeError" ELSE "ValueError")
ClashUses(n) == /\ (Locked \/ n \in declared)
                /\ Refuse(IF Locked THEN "RuntimeError" ELSE "ValueError")

\* a declaring or step-adding call whose arguments the recipe rejects when it is made (an unreachable concentration, a
\* malformed unit, a wrong combination of keywords): refusal-only, nothing may be left behind -- in particular not the name
BadArgs(k) == /\ phase \in {"building", "locked"}
              /\ Refuse(IF Locked THEN "RuntimeError" ELSE "ValueError")

Outside == Declarable \cup Undeclared
Next == \/ \E o \in Declarable : Uses(o)
        \/ \E n \in Containers : Create(n, {})                         \* create_container(n)
        \/ \E n \in Solutions : Create(n, {})                          \* create_solution(n, pure solvent)
        \/ \E n \in Solutions, o \in SolventLike : Create(n, {o})      \* create_solution(n, solvent = container o)
        \/ \E n \in Dilutions, o \in SolventLike : Create(n, {o})      \* create_solution_from(source = o, n)
        \/ \E o \in Outside \cup Creatable : OnOne(o)                  \* remove(o) / dilute(o) / fill_to(o)
        \/ \E o \in Outside \cup Creatable, p \in Outside \cup Creatable : Transfer(o, p)
        \/ \E n \in Declarable : ClashCreate(n)
        \/ \E n \in Creatable : ClashUses(n)
        \/ \E s \in StageNames : StartStage(s)
        \/ \E s \in StageNames \cup {"never-started", "all"} : EndStage(s)  \* ending a stage that is not the open one
        \/ \E k \in {"create", "step"} : BadArgs(k)
        \/ StartReserved              \* "all" is the reserved name of the whole recipe: never a stage of its own
        \/ Bake
Spec == Init /\ [][Next]_vars

TypeOK == /\ touched \subseteq declared /\ declared \subseteq Names
          /\ open \in StageNames \cup {"none"} /\ open \notin ClosedNames
          /\ \A c \in closed : c[1] \in StageNames /\ c[2] <= c[3] /\ c[3] <= nsteps
          /\ \A c, d \in closed : c[1] = d[1] => c = d
          /\ ostart <= nsteps
          /\ nsteps \in 0..MaxSteps
          /\ phase \in {"building", "locked"}
LockedIsForever == [][phase = "locked" =>
                        UNCHANGED <<declared, touched, open, ostart, closed, nsteps, phase>>]_vars
UndeclaredNeverIn == declared \cap Undeclared = {}
=============================================================================
