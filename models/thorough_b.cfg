CONSTANTS
 Declarable = {"A","P"}
 Containers = {"X"}
 Solutions = {"S"}
 Dilutions = {}
 SolventLike = {"A","U"}
 Undeclared = {"U"}
 StageNames = {"s1","s2"}
 MaxSteps = 3
INIT Init
NEXT Next
INVARIANT TypeOK
INVARIANT UndeclaredNeverIn
PROPERTY LockedIsForever
