"""E2 — recipe programs: vocabulary, bake of a program in a fresh Recipe, eager interpreter, stage layouts, ledger."""
from . import alphabets, e1, env, ref

T = alphabets.T

SPEC = {
    'A': ('container', 'inf L', [('water', '10 mL'), ('nacl', '2 mmol'), ('lipase', '1 U')]),
    # B starts with a trace of an inactive solid preparation that carries the NAME of the enzyme in A (a twin, e1.TWINS)
    'B': ('container', '20 mL', [('lipase_s', '5 mg')]),
    'P': ('plate', '500 uL', 2, 2),
}
CREATED = ('X', 'S', 'F')


def vocabulary():
    """~28 actions, simplest first (DESIGN Appendix C)."""
    v = [
        T('A', 'B', '1 mL'), T('A', 'B', '0.5 g'), T('A', 'B', '1 mmol'), T('B', 'A', '0.5 mL'),
        T('A', 'P', '50 uL'), T('A', ['P', "(1, 1)"], '50 uL'), T('A', ['P', "(slice(None), 2)"], '30 uL'),
        T(['P', "(1, slice(None))"], 'B', '10 uL'), T(['P', "(1, 1)"], ['P', "(2, slice(None))"], '10 uL'),
        T('P', 'B', '5 uL'), T(['P', "(1, slice(None))"], ['P', "(2, 1)"], '4 uL'),
        T('X', 'B', '0.2 mL'), T('S', ['P', "(2, 2)"], '20 uL'), T('B', 'X', '0.3 mL'),
        T('X', 'B', '1 mL'),                 # everything X was created with: X stays behind drained (amounts 0.0)
        T('A', ['P', "slice(None)", "(slice(1, 2), slice(None))"], '15 uL'),              # sub-slice of a slice (row 2)
        T(['P', "(slice(None), slice(None))", "(slice(0, 1), slice(1, 2))"], 'B', '2 uL'),  # sub-slice as source (A,2)
        T('B', 'A', '100 mL'),                                                         # infeasible (over-draw)
        {'op': 'remove', 'obj': 'B', 'what': 'water'}, {'op': 'remove', 'obj': 'A', 'what': 'nacl'},
        {'op': 'remove', 'obj': 'P', 'what': 'LIQUID'}, {'op': 'remove', 'obj': ['P', "(1, 1)"], 'what': 'water'},
        {'op': 'dilute', 'obj': 'A', 'solute': 'nacl', 'conc': '0.1 M', 'solvent': 'water'},
        {'op': 'fill_to', 'obj': 'B', 'solvent': 'water', 'q': '5 mL'},
        {'op': 'fill_to', 'obj': 'B', 'solvent': 'lipase', 'q': '6 mL'},          # an enzyme as the filler (density in U/mL)
        {'op': 'fill_to', 'obj': 'P', 'solvent': 'water', 'q': '100 uL'},
        {'op': 'fill_to', 'obj': ['P', "(1, slice(None))"], 'solvent': 'water', 'q': '100 uL'},
        # (the same substance in two portions: a container adds them up)
        {'op': 'new_container', 'name': 'X', 'max': '5 mL', 'contents': [['dmso', '0.6 mL'], ['dmso', '0.4 mL']]},
        {'op': 'create_solution', 'solute': 'nacl', 'solvent': 'water', 'name': 'S',
         'kw': {'concentration': '0.5 M', 'total_quantity': '2 mL'}},
        {'op': 'create_solution', 'solute': 'nacl', 'solvent': 'A', 'name': 'S',
         'kw': {'quantity': '10 mg', 'total_quantity': '2 mL'}},
        {'op': 'create_solution', 'solute': 'nacl', 'solvent': 'X', 'name': 'S',
         'kw': {'quantity': '5 mg', 'total_quantity': '0.5 mL'}},
        {'op': 'create_solution_from', 'src': 'A', 'solute': 'nacl', 'conc': '0.05 M', 'solvent': 'water', 'q': '2 mL',
         'name': 'F'},
        # a solvent the source does not hold
        {'op': 'create_solution_from', 'src': 'A', 'solute': 'nacl', 'conc': '0.04 M', 'solvent': 'dmso', 'q': '1.5 mL',
         'name': 'F'},
        {'op': 'dilute', 'obj': 'A', 'solute': 'nacl', 'conc': '0.15 M', 'solvent': 'dmso'},
        # more than its source (capacity 20 mL) could hold; needs B to hold some nacl first
        {'op': 'create_solution_from', 'src': 'B', 'solute': 'nacl', 'conc': '0.001 M', 'solvent': 'water', 'q': '25 mL',
         'name': 'F'},
        # a dilution that renames the container inside the recipe
        {'op': 'dilute', 'obj': 'A', 'solute': 'nacl', 'conc': '0.12 M', 'solvent': 'water', 'new_name': 'A2'},
    ]
    return v


def mentions(act):
    """Names of the objects an action reads or writes (not the name it creates)."""
    op = act['op']
    if op == 'transfer':
        return [e1.refname(act['src']), e1.refname(act['dst'])]
    if op in ('remove', 'fill_to', 'dilute'):
        return [e1.refname(act['obj'])]
    if op == 'create_solution':
        return [act['solvent']] if act['solvent'] in SPEC or act['solvent'] in CREATED else []
    if op == 'create_solution_from':
        return [act['src']]
    return []


def creates(act):
    return act.get('name') if act['op'] in ('new_container', 'create_solution', 'create_solution_from') else None


def enabled(program, act):
    made = {creates(a) for a in program if creates(a)}
    if creates(act) and creates(act) in made:
        return False
    for n in mentions(act):
        if n in CREATED and n not in made:
            return False
    return True


def outside_mentioned(program):
    out = []
    for a in program:
        for n in mentions(a):
            if n in SPEC and n not in out:
                out.append(n)
    return out


def expected_names(program):
    return set(outside_mentioned(program)) | {creates(a) for a in program if creates(a)}


def pristine(pp, vidx):
    subs = e1.substances(pp, vidx)
    return subs, e1.make_world(pp, subs, SPEC)


def add_step(pp, subs, world, handles, recipe, act):
    """Add one action to the live recipe. Slices are taken from the ORIGINAL declared plate, as a user does."""
    def obj(r):
        n = e1.refname(r)
        base = handles.get(n, world.get(n))
        if isinstance(r, str):
            return base
        # a slice is taken ONCE per recipe and the same object is handed to every step that mentions it (row = plate['A'];
        # recipe.transfer(a, row, ..); recipe.transfer(row, b, ..)): each step must still see the plate as it is by then
        key = ('slice', repr(r))
        if key in handles:
            return handles[key]
        o = base[e1.selectors.ev(r[1])]
        for sub in r[2:]:
            _ = (o.shape, o.size)
            o = o[e1.selectors.ev(sub)]
        handles[key] = o
        return o
    op = act['op']
    if op == 'transfer':
        recipe.transfer(obj(act['src']), obj(act['dst']), act['q'])
    elif op == 'remove':
        what = e1.CLASSES[act['what']] if act['what'] in e1.CLASSES else subs[act['what']]
        recipe.remove(obj(act['obj']), what)
    elif op == 'fill_to':
        recipe.fill_to(obj(act['obj']), subs[act['solvent']], act['q'])
    elif op == 'dilute':
        recipe.dilute(obj(act['obj']), subs[act['solute']], act['conc'], subs[act['solvent']], act.get('new_name'))
    elif op == 'new_container':
        handles[act['name']] = recipe.create_container(act['name'], act['max'],
                                                       [(subs[x], q) for x, q in act['contents']] or None)
    elif op == 'create_solution':
        solvent = obj(act['solvent']) if (act['solvent'] in world or act['solvent'] in handles) else subs[act['solvent']]
        handles[act['name']] = recipe.create_solution(subs[act['solute']], solvent, act['name'], **act['kw'])
    elif op == 'create_solution_from':
        handles[act['name']] = recipe.create_solution_from(obj(act['src']), subs[act['solute']], act['conc'],
                                                           subs[act['solvent']], act['q'], act['name'])
    else:
        raise env.InternalError(f"no recipe form for {op}")


def bake(pp, vidx, program, layout=None, premature=False, declare='one-by-one'):
    """Bake `program` in a fresh recipe that declares exactly the outside objects the program mentions.
    layout: list of (stage name, first step, one-past-last step or None = left open at bake).
    premature: bake() is also called after every step that leaves a declared object unused; that call must be refused
    and must not disturb anything (also done by layouts with refused stage calls).
    Returns dict(ok, exc, results, recipe, handles, world (the originals), pre_violation)."""
    env.clear_caches(pp)
    subs, world = pristine(pp, vidx)
    recipe = pp.Recipe()
    handles = {}
    out = {'ok': False, 'exc': None, 'results': None, 'recipe': recipe, 'handles': handles, 'world': world, 'subs': subs,
           'pre': None, 'phase': 'declare'}
    try:
        names = outside_mentioned(program)
        if declare == 'one-by-one' or len(names) < 2:
            for n in names:
                recipe.uses(world[n])
        elif declare == 'list-then-args':          # one call: an iterable first, plain arguments after it
            recipe.uses([world[names[0]]], *[world[n] for n in names[1:]])
        elif declare == 'args-then-generator':     # one call: a plain argument, then a one-shot iterator with the rest
            recipe.uses(world[names[0]], (world[n] for n in names[1:]))
        elif declare == 'chained':                 # uses() returns the recipe
            r2 = recipe
            for n in names:
                r2 = r2.uses((world[n],))
                if r2 is not recipe:
                    raise env.InternalError("uses() did not return the recipe")
        else:
            raise env.InternalError(declare)
        fp0 = e1.exact_world(world)
        starts = {s: n for n, s, e in (layout or [])}
        out['phase'] = 'add'
        refused = any(n.endswith('!') for n, _, _ in (layout or []))

        def stage_calls(i):
            # in layout order: stages ending here, then stages starting here (an empty stage starts and ends at once)
            for n, s, e in (layout or []):
                if e == i and s < i:
                    recipe.end_stage(n)
            for n, s, e in (layout or []):
                if s == i:
                    recipe.start_stage(n)
                    if e == i:
                        recipe.end_stage(n)
        for i, act in enumerate(program):
            stage_calls(i)
            add_step(pp, subs, world, handles, recipe, act)
            if (refused or premature) and i + 1 < len(program) and \
                    set(outside_mentioned(program)) - set(outside_mentioned(program[:i + 1])):
                try:
                    recipe.bake()
                    out['premature'] = f"bake() after step {i + 1} was accepted although a declared object was unused"
                except ValueError:
                    pass
            if refused:
                # stage calls that must be refused, in the middle of the program: they must not disturb anything
                for call, arg in ((recipe.start_stage, starts.get(0, 'zz')), (recipe.end_stage, 'never-started'),
                                  (recipe.start_stage, 'all')):
                    try:
                        call(arg)
                        raise env.InternalError(f"stage call {call.__name__}({arg!r}) was expected to be refused")
                    except ValueError:
                        pass
        stage_calls(len(program))
        # steps have no effect before bake: originals unchanged, placeholders empty
        if e1.exact_world(world) != fp0:
            out['pre'] = 'adding steps modified a declared object before bake'
        elif any(h.contents for k, h in handles.items() if isinstance(k, str)):
            out['pre'] = 'a placeholder returned by create_* is not empty before bake'
        out['phase'] = 'bake'
        res = recipe.bake()
        if e1.exact_world(world) != fp0:
            out['pre'] = out['pre'] or 'bake modified an object handed to uses()'
    except env.InternalError:
        raise
    except Exception as e:  # noqa
        out['exc'] = e
        # a refused step or a bake that fails at its k-th step must leave the objects handed to the recipe unchanged too
        if 'fp0' in dir() and e1.exact_world(world) != fp0:
            out['pre'] = out['pre'] or f"a failing {out['phase']} ({type(e).__name__}) modified an object handed to uses()"
        return out
    out['ok'] = True
    out['results'] = dict(res)
    return out


def world_after(pp, vidx, results, needed):
    """The eager world: baked results plus pristine copies of outside objects not yet declared."""
    subs, world = pristine(pp, vidx)
    w = {n: world[n] for n in needed if n in world}
    w.update(results or {})
    return subs, w


def same_object(pp, a, b, k=1):
    """None if equal within tolerance, else a description."""
    if e1.is_plate(a) != e1.is_plate(b):
        return 'different kinds'
    if e1.is_plate(a):
        if a.wells.shape != b.wells.shape:
            return 'different shapes'
        for wa, wb in zip(a.wells.flatten(), b.wells.flatten()):
            d = same_object(pp, wa, wb, k)
            if d:
                return f"{wa.name}: {d}"
        return None
    for s in set(a.contents) | set(b.contents):
        x, y = a.contents.get(s, 0.0), b.contents.get(s, 0.0)
        if abs(x - y) > 1e-6 + 1e-9 * max(abs(x), abs(y)):
            return f"{s.name}: {x!r} vs {y!r}"
    if abs(a.volume - b.volume) > 1e-6 + 1e-9 * abs(a.volume):
        return f"volume {a.volume!r} vs {b.volume!r}"
    if a.max_volume != b.max_volume:
        return f"capacity {a.max_volume!r} vs {b.max_volume!r}"
    if a.name != b.name:
        return f"name {a.name!r} vs {b.name!r}"
    return None


def step_kind(act):
    def f(r):
        return 'obj' if isinstance(r, str) else 'slice'
    if act['op'] == 'transfer':
        return f"transfer,{f(act['src'])}->{f(act['dst'])}"
    if 'obj' in act:
        return f"{act['op']},{f(act['obj'])}"
    if act['op'] == 'create_solution':
        return f"create_solution,solvent={'container' if act['solvent'] in SPEC or act['solvent'] in CREATED else 'substance'}"
    return act['op']


# ---- stage layouts -------------------------------------------------------------------------------------------------
def layouts(n):
    """Stage layouts for an n-step program: (label, layout)."""
    out = [('per-step', [(f's{i}', i, i + 1) for i in range(n)])]
    if n >= 1:
        out.append(('per-step-last-open', [(f's{i}', i, i + 1) for i in range(n - 1)] + [(f's{n - 1}', n - 1, None)]))
    for c in range(1, n):
        out.append((f'two-stages-cut{c}', [('a', 0, c), ('b', c, n)]))
    for i in range(n):
        for j in range(i + 1, n + 1):
            if (i, j) != (0, n) or n == 1:
                out.append((f'one-stage-{i}-{j}', [('r', i, j)]))
    if n >= 1:
        # stages that contain no step: before the first step, between two stages, after the last step
        out.append(('empty-stages', [('e0', 0, 0), ('a', 0, max(1, n - 1))] + ([('e1', n - 1, n - 1), ('b', n - 1, n)] if n >= 2 else [])
                    + [('e2', n, n)]))
    if n >= 2:
        out.append(('whole-open', [('w', 0, None)]))
        # the same two stages with refused stage calls after every step (names ending in '!' switch them on)
        out.append(('two-stages-refused-calls', [('a!', 0, 1), ('b!', 1, n)]))
    return out


def amount(obj, sub):
    if obj is None:
        return 0.0
    if e1.is_plate(obj):
        return float(sum(w.contents.get(sub, 0.0) for w in obj.wells.flatten()))
    return obj.contents.get(sub, 0.0)


# ---- enumeration of all successfully baking programs (shared by C09 / C15 / C19) ---------------------------------------
_E = {}


def _children(prog_idx):
    pp, vidx, voc = _E['pp'], _E['vidx'], _E['voc']
    program = [voc[i] for i in prog_idx]
    out = []
    for ai, act in enumerate(voc):
        if enabled(program, act):
            b = bake(pp, vidx, program + [act])
            out.append((ai, b['ok']))
    return out


def successful_programs(pp, vidx, depth, voc=None):
    """All programs of 1..depth steps whose bake succeeds (extensions of failing prefixes pruned), in BFS order."""
    from . import par
    voc = voc or vocabulary()
    _E.update(pp=pp, vidx=vidx, voc=voc)
    frontier, allp, failing = [()], [], 0
    for level in range(depth):
        res = par.pmap(_children, frontier, chunk=1 if len(frontier) < 2000 else None)
        nxt = []
        for p, out in zip(frontier, res):
            for ai, ok in out:
                if ok:
                    nxt.append(p + (ai,))
                else:
                    failing += 1
        allp += nxt
        frontier = nxt
    return voc, allp, failing


def prefix_states(pp, vidx, program):
    """state_i = every object just before step i (i = 0..n), from prefix bakes only (never from step.frm/to).
    Objects not yet declared are the pristine ones; objects not yet created are absent."""
    import json
    names = expected_names(program)
    outside = [n for n in names if n in SPEC]
    states = []
    for i in range(len(program) + 1):
        # prefix bakes are shared by all programs with that prefix; a cached state is re-used only if its exact
        # fingerprint is unchanged (values are supposed to be immutable, but that is C04's claim, not an assumption here)
        key = (vidx, json.dumps(program[:i], sort_keys=True), tuple(sorted(outside)))
        hit = _PREFIX_CACHE.get(key)
        if hit is not None and e1.exact_world(hit[0]) == hit[1]:
            states.append(dict(hit[0]))
            continue
        b = bake(pp, vidx, program[:i])
        if not b['ok']:
            raise env.InternalError(f"prefix of a successful program failed to bake: {b['exc']!r}")
        _, w = world_after(pp, vidx, b['results'], outside)
        if len(_PREFIX_CACHE) > 4000:
            _PREFIX_CACHE.clear()
        _PREFIX_CACHE[key] = (w, e1.exact_world(w))
        states.append(dict(w))
    return states


_PREFIX_CACHE = {}
