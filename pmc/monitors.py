"""Oracles evaluated on every transition / state of an E1 exploration (C01, C02, C03 sanity, C04, C10)."""
import math
from fractions import Fraction as F

import numpy

from . import e1, ref
from .report import V


# ---- helpers -----------------------------------------------------------------------------------------------------
def all_units(world):
    """Every container and well of the world: list of ((name, rc|None), Container)."""
    out = []
    for n in sorted(world):
        o = world[n]
        if e1.is_plate(o):
            for r in range(o.wells.shape[0]):
                for c in range(o.wells.shape[1]):
                    out.append(((n, (r, c)), o.wells[r, c]))
        else:
            out.append(((n, None), o))
    return out


def form_of(world, r):
    o = world[e1.refname(r)]
    if not e1.is_plate(o):
        return 'container'
    if isinstance(r, str):
        return 'plate'
    sel = e1.selectors.ev(r[1])
    return 'list-slice' if isinstance(sel, list) else 'slice'


def relation(sreg, dreg):
    a, b = set(sreg), set(dreg)
    if not (a & b):
        if sreg[0][0] == dreg[0][0]:
            return 'same-plate-disjoint'
        return 'different-objects'
    return 'identical' if a == b else 'overlapping'


def qbase(q):
    try:
        return ref.parse_quantity(q)[1]
    except ValueError:
        return '?'


def site(world, act):
    return 'Plate.transfer' if e1.is_plate(world[e1.refname(act['dst'])]) else 'Container.transfer'


def pairs_of(sreg, sshape, dreg, dshape):
    """Pairing of source and destination wells as the property states it; None = shapes must be rejected."""
    if len(sreg) == 1:
        return [(sreg[0], d) for d in dreg]
    if len(dreg) == 1:
        return [(s, dreg[0]) for s in sreg]
    if sshape is not None and dshape is not None and sshape == dshape:
        return list(zip(sreg, dreg))
    return None


# ---- C01 ---------------------------------------------------------------------------------------------------------
def m_conservation(ctx, pre, act, obs, post):
    if act['op'] != 'transfer' or not obs['ok']:
        return
    pp = ctx['pp']
    sreg, sshape = e1.region(pre, act['src'])
    dreg, dshape = e1.region(pre, act['dst'])
    unjudged_region = sreg is None or dreg is None
    if unjudged_region:
        # which wells such a selector addresses is not judged (a list that names a well twice, an undocumented form): but a
        # call that RETURNS conserves every substance over the whole world whatever it addressed
        sreg, dreg = sreg or [], dreg or []
        rel = 'unjudged-region'
    else:
        rel = relation(sreg, dreg)
    feat = f"src={form_of(pre, act['src'])},dst={form_of(pre, act['dst'])},rel={rel},unit={qbase(act['q'])}"
    vs = []
    upre, upost = dict(all_units(pre)), dict(all_units(post))
    if set(upre) != set(upost):
        return [V(f"{site(pre, act)} | frame-changed | {feat}", "the set of wells/containers changed", ctx['case'])]
    # accounting per substance as identified by its parameters, never through Substance.__eq__ / __hash__
    ipre, ipost = [e1.by_ident(c.contents) for c in upre.values()], [e1.by_ident(c.contents) for c in upost.values()]
    idents = set()
    for d in ipre + ipost:
        idents.update(d)
    n_touch = (len(sreg) + len(dreg)) if not unjudged_region else len(upre)
    for s in sorted(idents, key=repr):
        before = math.fsum(d.get(s, 0.0) for d in ipre)
        after = math.fsum(d.get(s, 0.0) for d in ipost)
        if abs(after - before) > ref.tol(pp, before, 0, scale=n_touch):
            twin = ',twin' if sum(1 for i in idents if i[0] == s[0]) > 1 else ''
            vs.append(V(f"{site(pre, act)} | not-conserved | {feat}{twin}",
                        f"{e1.act_str(act)}: total {s[0]}{' ' + repr(s[1:]) if twin else ''} over all objects changed from "
                        f"{before!r} to {after!r} (storage units)", ctx['case'], before, after))
            break
    if unjudged_region:
        return vs
    touched = set(sreg) | set(dreg)
    for addr, c in upre.items():
        if addr in touched:
            continue
        c2 = upost[addr]
        if c.contents != c2.contents or c.volume != c2.volume:
            vs.append(V(f"{site(pre, act)} | frame-changed | {feat}",
                        f"{e1.act_str(act)}: {addr} is neither source nor destination but changed from "
                        f"{e1.contents_key(c, 9)} to {e1.contents_key(c2, 9)}", ctx['case']))
            break
    return vs


# ---- C02 ---------------------------------------------------------------------------------------------------------
def ratio_unc(pp, contents, unit):
    """Relative uncertainty of measure(contents, unit) caused by the documented storage resolution (10^-precision of
    the storage unit per stored amount).  E.g. 1e-10 U of an enzyme at 1 U/mL is 1e-7 uL: in a 50 uL well the volume,
    and with it every volume-based transfer fraction, is only defined to 2e-9 relative."""
    M = ref.measure(pp, contents, unit)
    if M == 0:
        return 0.0
    res = F(10) ** -pp.config.internal_precision
    u = sum(ref.base_amount(pp, ref.rsub(x), 1) * res * ref.per_base(ref.rsub(x), unit) for x in contents)
    return float(u / M)


def m_aliquot(ctx, pre, act, obs, post):
    if act['op'] != 'transfer' or not obs['ok']:
        return
    pp = ctx['pp']
    try:
        q, unit = ref.parse_quantity(act['q'])
    except ValueError:
        return
    if unit not in ('L', 'g', 'mol', 'U') or q < 0:
        return
    sreg, sshape = e1.region(pre, act['src'])
    dreg, dshape = e1.region(pre, act['dst'])
    if sreg is None or dreg is None or (set(sreg) & set(dreg)):
        return            # overlapping regions are judged by C01 only
    pairs = pairs_of(sreg, sshape, dreg, dshape)
    if pairs is None:
        return            # C07 judges shape rejection
    feat = f"src={form_of(pre, act['src'])},dst={form_of(pre, act['dst'])},unit={unit}"
    # reference: every withdrawal from a well has that well's composition and size q
    n_out = {}
    for s, d in pairs:
        n_out[s] = n_out.get(s, 0) + 1
    frac = {}
    for s, m in n_out.items():
        M = ref.measure(pp, e1.well_of(pre, s).contents, unit)
        if M == 0:
            if q == 0:
                frac[s] = F(0)
                continue
            # the call returned although the source holds nothing that the unit of q measures: no aliquot of size q left it
            return [V(f"{site(pre, act)} | wrong-size | {feat},nothing-available",
                      f"{e1.act_str(act)} returned although source {s} holds nothing measurable in {unit}: the amount taken "
                      f"cannot be q", ctx['case'], 'refused', 'returned')]
        if m * q > M * (1 + F(1, 10 ** 6)):
            return [V(f"{site(pre, act)} | wrong-size | {feat},more-than-available",
                      f"{e1.act_str(act)} returned although source {s} holds {float(M)!r} {unit} and {m} x {float(q)!r} were "
                      f"requested: the amounts taken cannot all be q", ctx['case'], 'refused', 'returned')]
        if m * q > M * (1 + F(1, 10 ** 9)):
            return        # within float noise of taking everything: C03's boundary cases
        frac[s] = q / M
    expect = {}          # addr -> {substance: expected stored amount}
    I = e1.ident          # substances are told apart by what they are, never through Substance.__eq__ / __hash__
    for s, m in n_out.items():
        c = e1.well_of(pre, s)
        expect[s] = {}
        for x, a in c.contents.items():
            expect[s][I(x)] = expect[s].get(I(x), F(0)) + F(a) * (1 - m * frac[s])
    for s, d in pairs:
        if d not in expect:
            expect[d] = {}
            for x, a in e1.well_of(pre, d).contents.items():
                expect[d][I(x)] = expect[d].get(I(x), F(0)) + F(a)
        for x, a in e1.well_of(pre, s).contents.items():
            expect[d][I(x)] = expect[d].get(I(x), F(0)) + F(a) * frac[s]
    m_max = max(n_out.values())
    scale = m_max + len(pairs) / max(1, len(dreg)) + 1
    unc = max(ratio_unc(pp, e1.well_of(pre, s).contents, unit) for s in n_out)
    # the request itself is only defined to the documented internal precision: a mass or an activity is rounded to 10^-precision
    # of its base unit, a volume or an amount of substance to 10^-precision of the storage unit
    res = F(10) ** -pp.config.internal_precision
    dq = res * (ref.storage_prefix(pp, 'L') if unit == 'L' else ref.storage_prefix(pp, 'mol') if unit == 'mol' else 1)
    q_unc = float(dq / q) if q else 0.0
    for addr, exp_s in expect.items():
        # compared per substance identity (name, kind, parameters), never through Substance.__eq__ / __hash__
        exp = exp_s
        got = e1.by_ident(e1.well_of(post, addr).contents)
        pre_c = e1.by_ident(e1.well_of(pre, addr).contents)
        for x in sorted(set(exp) | set(got), key=repr):
            e = exp.get(x, F(0))
            g = got.get(x, 0.0)
            moved = max(abs(float(e) - pre_c.get(x, 0.0)), abs(float(e)))
            if abs(g - float(e)) > ref.tol(pp, e, 0, scale=scale) + (8 * m_max * m_max * unc + 2 * m_max * q_unc) * moved:
                role = 'source' if addr in n_out else 'destination'
                kind = 'wrong-size'
                # uniformity: does the source keep one common fraction?
                return [V(f"{site(pre, act)} | {kind} | {feat},side={role}",
                          f"{e1.act_str(act)}: {role} {addr} holds {g!r} of {x[0]}, a uniform aliquot of size q "
                          f"gives {float(e)!r} (storage units)", ctx['case'], float(e), g)]
    return


# ---- C03 (state sanity) ------------------------------------------------------------------------------------------
def sane_container(pp, c):
    for s, a in c.contents.items():
        if a != a or a in (float('inf'), float('-inf')):
            return f"negative or non-finite amount {a!r} of {s.name}"
        if not (a >= -1e-9):
            return f"negative amount {a!r} of {s.name}"
    if c.volume != c.volume or c.volume in (float('inf'), float('-inf')):
        return f"negative or non-finite volume {c.volume!r}"
    if not (c.volume >= -1e-9):
        return f"negative volume {c.volume!r}"
    if c.volume > c.max_volume * (1 + 1e-12) + 1e-9:
        return f"volume {c.volume!r} exceeds capacity {c.max_volume!r}"
    if c.max_volume != float('inf'):
        v = float(ref.volume_stored(pp, c.contents))          # what the contents really occupy, not the cached attribute
        if v > c.max_volume * (1 + 1e-9) + 1e-6:
            return f"contents occupying {v!r} exceed the capacity {c.max_volume!r} (stored volume says {c.volume!r})"
    return None


def m_sanity(ctx, pre, act, obs, post):
    if not obs['ok']:
        return
    pp = ctx['pp']
    for _, c in all_units(pre):
        if sane_container(pp, c):
            return          # garbage in: the transition that produced the impossible state was reported already
    for name, o in obs['new'].items():
        units = [(None, o)] if not e1.is_plate(o) else [((r, c), o.wells[r, c]) for r in range(o.wells.shape[0])
                                                         for c in range(o.wells.shape[1])]
        for rc, c in units:
            why = sane_container(pp, c)
            if why:
                kind = 'negative-contents' if 'negative' in why else 'over-capacity'
                feat = f"op={act['op']},unit={qbase(act.get('q', '')) if 'q' in act else '-'}"
                return [V(f"{_site_any(pre, act)} | {kind} | {feat}",
                          f"{e1.act_str(act)} returned {name}{'' if rc is None else list(rc)} with {why}",
                          ctx['case'])]


def _site_any(world, act):
    if act['op'] == 'transfer':
        return site(world, act)
    return act['op']


# ---- C03: requests that clearly fit must be accepted, in every reachable state ------------------------------------------
def m_feasible(ctx, pre, act, obs, post):
    """A transfer / remove / fill_to that the reference model finds clearly feasible (a part in a million away from every
    limit) on the state reached so far must not raise; whatever is raised by any call must be a ValueError or TypeError."""
    pp = ctx['pp']
    if obs['ok']:
        return
    for _, c in all_units(pre):
        if any(a != a or a in (float('inf'), float('-inf')) for a in c.contents.values()):
            return          # garbage in: the transition that produced the impossible state was reported by the sanity monitor
    exc = obs['exc']
    oc = type(exc).__name__
    if not isinstance(exc, (ValueError, TypeError, RuntimeError)):
        return [V(f"{_site_any(pre, act)} | wrong-exception | op={act['op']},raises={oc}",
                  f"{e1.act_str(act)} raised {oc}: {exc} (a refusal is a ValueError)", ctx['case'], 'ValueError', oc)]
    margin = F(1, 10 ** 6)
    why = None
    if act['op'] == 'transfer':
        try:
            q, unit = ref.parse_quantity(act['q'])
        except ValueError:
            return
        if unit not in ('L', 'g', 'mol', 'U') or q <= 0:
            return
        sreg, sshape = e1.region(pre, act['src'])
        dreg, dshape = e1.region(pre, act['dst'])
        if sreg is None or dreg is None or (set(sreg) & set(dreg)):
            return
        pairs = pairs_of(sreg, sshape, dreg, dshape)
        if pairs is None:
            return
        n_out, into = {}, {}
        for a, b in pairs:
            n_out[a] = n_out.get(a, 0) + 1
        for a, m in n_out.items():
            M = ref.measure(pp, e1.well_of(pre, a).contents, unit)
            if M == 0 or m * q > M * (1 - margin):
                return                  # not clearly available
        for a, b in pairs:
            c = e1.well_of(pre, a)
            into[b] = into.get(b, F(0)) + q / ref.measure(pp, c.contents, unit) * ref.volume_stored(pp, c.contents)
        for b, v in into.items():
            d = e1.well_of(pre, b)
            if d.max_volume != float('inf') and ref.volume_stored(pp, d.contents) + v > F(d.max_volume) * (1 - margin):
                return                  # not clearly room
        why = "every source holds clearly more than is drawn from it and every destination has clearly room"
    elif act['op'] == 'remove':
        if e1.region(pre, act['obj'])[0] is None:
            return
        why = "remove has no precondition"
    elif act['op'] == 'fill_to':
        try:
            t, unit = ref.parse_quantity(act['q'])
        except ValueError:
            return
        reg, _ = e1.region(pre, act['obj'])
        solvent = ctx['subs'][act['solvent']] if 'subs' in ctx else None
        if reg is None or solvent is None or unit not in ('L', 'g', 'mol', 'U'):
            return
        rs = ref.rsub(solvent)
        per = ref.per_base(rs, unit)
        if per == 0:
            return
        for a in reg:
            c = e1.well_of(pre, a)
            cur = ref.measure(pp, c.contents, unit)
            if t < cur * (1 + margin) + F(1, 10 ** 12):
                return
            add_v = (t - cur) / per * ref.per_base(rs, 'L') / ref.storage_prefix(pp, 'L')
            if c.max_volume != float('inf') and ref.volume_stored(pp, c.contents) + add_v > F(c.max_volume) * (1 - margin):
                return
        why = "the target is clearly above what every addressed vessel holds and clearly fits"
    if why:
        return [V(f"{_site_any(pre, act)} | refused-feasible | op={act['op']},unit={qbase(act.get('q', '')) if 'q' in act else '-'},"
                  f"form={form_of(pre, act.get('dst') or act.get('obj'))}",
                  f"{e1.act_str(act)} raised {oc}: {exc}, although {why}", ctx['case'], 'returns', oc)]


def m_infeasible(ctx, pre, act, obs, post):
    """The mirror of m_feasible: a transfer that clearly over-draws a source well or clearly over-fills a destination well, and a
    fill_to whose target is clearly below what an addressed vessel holds or clearly beyond its capacity, must not return."""
    pp = ctx['pp']
    if not obs['ok']:
        return
    for _, c in all_units(pre):
        if sane_container(pp, c):
            return
    margin = F(1, 10 ** 6)
    why = None
    if act['op'] == 'transfer':
        try:
            q, unit = ref.parse_quantity(act['q'])
        except ValueError:
            return
        if unit not in ('L', 'g', 'mol', 'U') or q <= 0:
            return
        sreg, sshape = e1.region(pre, act['src'])
        dreg, dshape = e1.region(pre, act['dst'])
        if sreg is None or dreg is None or (set(sreg) & set(dreg)):
            return
        pairs = pairs_of(sreg, sshape, dreg, dshape)
        if pairs is None:
            return
        n_out, into = {}, {}
        for a, b in pairs:
            n_out[a] = n_out.get(a, 0) + 1
        for a, m in n_out.items():
            M = ref.measure(pp, e1.well_of(pre, a).contents, unit)
            if m * q > M * (1 + margin) + F(1, 10 ** 15):
                why = f"source {a} holds {float(M)!r} {unit}, {m} x {float(q)!r} are drawn from it"
                break
        if why is None:
            for a, b in pairs:
                c = e1.well_of(pre, a)
                into[b] = into.get(b, F(0)) + q / ref.measure(pp, c.contents, unit) * ref.volume_stored(pp, c.contents)
            for b, v in into.items():
                d = e1.well_of(pre, b)
                if d.max_volume != float('inf') and ref.volume_stored(pp, d.contents) + v > F(d.max_volume) * (1 + margin):
                    why = f"destination {b} would hold {float(ref.volume_stored(pp, d.contents) + v)!r} of {d.max_volume!r} (storage units)"
                    break
    elif act['op'] == 'fill_to':
        try:
            t, unit = ref.parse_quantity(act['q'])
        except ValueError:
            return
        reg, _ = e1.region(pre, act['obj'])
        if reg is None or unit not in ('L', 'g', 'mol', 'U'):
            return
        rs = ref.rsub(ctx['subs'][act['solvent']])
        per = ref.per_base(rs, unit)
        for a in reg:
            c = e1.well_of(pre, a)
            cur = ref.measure(pp, c.contents, unit)
            if t < cur * (1 - margin) - F(1, 10 ** 12):
                why = f"{a} already holds {float(cur)!r} {unit}, the target is {float(t)!r}"
                break
            if per and c.max_volume != float('inf'):
                add_v = (t - cur) / per * ref.per_base(rs, 'L') / ref.storage_prefix(pp, 'L')
                if ref.volume_stored(pp, c.contents) + add_v > F(c.max_volume) * (1 + margin):
                    why = f"{a} would hold more than its capacity {c.max_volume!r}"
                    break
    if why:
        return [V(f"{_site_any(pre, act)} | accepted-infeasible | op={act['op']},unit={qbase(act.get('q', ''))},"
                  f"form={form_of(pre, act.get('dst') or act.get('obj'))}",
                  f"{e1.act_str(act)} returned although {why}", ctx['case'], 'ValueError', 'returned')]


# ---- C04 (immutability) -------------------------------------------------------------------------------------------
def m_immutable(ctx, pre, act, obs, post):
    """Arguments are observably unchanged after the call, whether it returned or raised; results are new objects."""
    before = ctx.get('pre_exact')
    if before is None:
        return
    after = e1.exact_world(pre)
    vs = []
    outcome = 'returned' if obs['ok'] else 'raised'
    if after != before:
        changed = [n for n, a, b in zip(sorted(pre), before, after) if a != b]
        vs.append(V(f"{_site_any(pre, act)} | argument-mutated | op={act['op']},outcome={outcome}",
                    f"{e1.act_str(act)} {outcome} and modified {changed} in place", ctx['case']))
    if ctx.get('subs_exact') is not None and e1.exact_subs(ctx['subs']) != ctx['subs_exact']:
        changed = [a[0] for a, b in zip(ctx['subs_exact'], e1.exact_subs(ctx['subs'])) if a != b]
        vs.append(V(f"{_site_any(pre, act)} | argument-mutated | substance,op={act['op']},outcome={outcome}",
                    f"{e1.act_str(act)} {outcome} and wrote to the Substance object(s) {changed} (attributes or hash changed: a "
                    f"Substance is a dictionary key in every container that holds it)", ctx['case']))
    if ctx.get('first_changed'):
        vs.append(V(f"{_site_any(pre, act)} | earlier-result-mutated | repeated-call,op={act['op']}",
                    f"{e1.act_str(act)} made a second time with the same arguments altered what the FIRST call had returned "
                    f"({ctx['first_changed']}): results of equal calls share structure", ctx['case']))
    if obs.get('lists_changed'):
        vs.append(V(f"{_site_any(pre, act)} | argument-mutated | list-argument,op={act['op']},outcome={outcome}",
                    f"{e1.act_str(act)} {outcome} and changed a list that was handed to it (it was "
                    f"{[getattr(x, 'name', x) for x in obs['lists_changed'][0]]} before)", ctx['case']))
    if obs['ok']:
        old_ids = {id(o) for o in pre.values()}
        for n, o in obs['new'].items():
            if id(o) in old_ids and o is pre.get(n) and act['op'] not in ('dilute',):
                # returning the very same object is only acceptable if nothing had to change
                pass
    for n, fp, o in ctx.get('path_objects', ()):
        if e1.exact_obj(o) != fp:
            vs.append(V(f"{_site_any(pre, act)} | earlier-result-mutated | op={act['op']},outcome={outcome}",
                        f"{e1.act_str(act)} {outcome} and altered an object returned earlier on this history ({n})",
                        ctx['case']))
            break
    return vs


# ---- C10 (observers) ---------------------------------------------------------------------------------------------
CONC_UNITS = ['M', 'mM', 'm', 'mol/L', 'mmol/mL', 'g/L', 'mg/mL', 'g/mL', 'g/g', 'mg/g', 'g/kg', 'mol/mol', 'mol/kg',
              'L/L', 'mL/L', 'uL/mL', 'L/g', 'U/mL', 'U/L', 'U/g', 'U/mg', 'U/mol', 'g/mol', '%w/w', '%v/v', '%w/v']
VOL_UNITS = [None, 'L', 'mL', 'uL', 'nL', 'dL', 'cL']


def check_container_observers(pp, subs, c, where, case, k=0):
    vs = []
    prec = pp.config.internal_precision
    vref = ref.volume_stored(pp, c.contents)
    n = max(1, len(c.contents))
    if abs(c.volume - float(vref)) > ref.tol(pp, vref, k, scale=n):
        vs.append(V("Container.volume | observer-mismatch | stored-volume",
                    f"{where}: stored volume {c.volume!r} but the contents occupy {float(vref)!r} (storage units)",
                    case, float(vref), c.volume))
        return vs
    vL = ref.measure(pp, c.contents, 'L')
    for u in VOL_UNITS:
        try:
            got = c.get_volume(u) if u else c.get_volume()
        except Exception as e:  # noqa
            vs.append(V(f"Container.get_volume | observer-mismatch | raises,unit={u}",
                        f"{where}: get_volume({u!r}) raised {type(e).__name__}: {e}", case))
            continue
        uu = u or pp.config.volume_display_unit
        want = vL / ref.split_unit(uu)[0]
        if abs(got - float(want)) > 10.0 ** -prec + float(ref.tol(pp, vref, k, scale=n)) * float(
                ref.storage_prefix(pp, 'L') / ref.split_unit(uu)[0]) + 1e-9 * abs(float(want)):
            vs.append(V(f"Container.get_volume | observer-mismatch | unit={'default' if u is None else 'prefixed'}",
                        f"{where}: get_volume({u!r}) = {got!r}, contents give {float(want)!r}", case, float(want), got))
            break
    wv = pp.config.default_weight_volume_units
    for sname in sorted(subs):
        s = subs[sname]
        rs = ref.rsub(s)
        for cu in CONC_UNITS:
            try:
                mult, num, den = ref.parse_concentration('1 ' + cu, wv)
            except ValueError:
                continue
            if num == 'U' and not rs.is_enzyme():
                continue           # measuring a non-enzyme in activity units is rejected by Unit (C06)
            want = ref.conc(pp, c.contents, s, num, den)
            if den == 'L' and vL < F(10) ** (1 - prec):
                continue           # a volume below ten internal resolutions (1e-10 L each) is not judged per litre
            try:
                got = c.get_concentration(s, cu)
            except ZeroDivisionError:
                if want is None:
                    continue
                vs.append(V(f"Container.get_concentration | observer-mismatch | raises,den={den}",
                            f"{where}: get_concentration({sname}, {cu!r}) raised ZeroDivisionError", case))
                continue
            except Exception as e:  # noqa
                vs.append(V(f"Container.get_concentration | observer-mismatch | raises,den={den}",
                            f"{where}: get_concentration({sname}, {cu!r}) raised {type(e).__name__}: {e}", case))
                continue
            if want is None:
                if got == 0 and c.contents.get(s, 0) == 0:
                    continue
                continue           # empty denominator: undefined, not judged
            want = want / mult
            rel = 1e-9 * (k + 1) + 1e-7
            if den == 'L' and vL > 0:
                rel += 1e-10 / float(vL) * 2        # the implementation rounds the volume in litres to 1e-10
            if abs(got - float(want)) > 10.0 ** -prec + rel * abs(float(want)):
                vs.append(V(f"Container.get_concentration | observer-mismatch | kind={rs.kind},num={num},den={den}",
                            f"{where}: get_concentration({sname}, {cu!r}) = {got!r}, definition gives {float(want)!r}",
                            case, float(want), got))
                return vs
    got = c.get_substances()
    if set(got) != set(c.contents):
        vs.append(V("Container.get_substances | observer-mismatch | set",
                    f"{where}: get_substances() = {sorted(x.name for x in got)}", case))
    return vs


def _prec(pp, unit):
    p = pp.config.precisions
    return p[unit] if unit in p else p['default']


# observers reached through a sub-slice of a strided slice (columns / rows 1, 3 of the plate, then from the second of those on)
SUB_SLICES = (("(slice(None), slice(None, None, 2))", "(slice(None), slice(1, None))"),
              ("(slice(None, None, 2), slice(None))", "(slice(1, None), slice(None))"))


def check_plate_observers(pp, subs, plate, where, case, k=0, slices=("slice(None)", "(1, slice(None))",
                                                                      "(slice(None), 1)")):
    vs = []
    slist = [subs[n] for n in sorted(subs)]
    for sel in tuple(slices) + SUB_SLICES:
        # the wells a view addresses come from the independent resolver (sub-slices of slices: 0-based indexing of the parent's
        # grid, as in C07), not from the view itself
        chain = sel if isinstance(sel, tuple) else (sel,)
        addr, shape = e1.region({'_': plate}, ['_'] + list(chain))
        if addr is None:
            continue                                  # the plate is too small for this sub-slice
        view = plate[e1.selectors.ev(chain[0])]
        for sub in chain[1:]:
            _ = (view.shape, view.size)
            view = view[e1.selectors.ev(sub)]
        wells = numpy.empty(len(addr), dtype=object)
        for i, (_n, rc) in enumerate(addr):
            wells[i] = plate.wells[rc[0], rc[1]]
        wells = wells.reshape(shape)
        sel = ']['.join(chain)
        def cmp(name, got, want_arr, unit):
            got = numpy.asarray(got, dtype=float)
            want = numpy.array(want_arr, dtype=float)
            if got.size != want.size:
                return V(f"Plate.{name} | observer-mismatch | shape", f"{where}[{sel}].{name}: shape {got.shape}, the region has "
                         f"{want.size} wells", case)
            want = want.reshape(got.shape)
            tolv = 0.5 * 10.0 ** -_prec(pp, unit) * (1 + 1e-6) + 1e-7 * numpy.abs(want) + 1e-9
            if numpy.any(numpy.abs(got - want) > tolv):
                return V(f"Plate.{name} | observer-mismatch | values",
                         f"{where}[{sel}].{name}(unit={unit!r}) = {got.tolist()}, contents give {want.tolist()}", case,
                         want.tolist(), got.tolist())
            return None

        def per_well(fn):
            return [[fn(w) for w in row] for row in wells] if wells.ndim == 2 else [fn(w) for w in wells]
        for unit in (None, 'uL', 'mL'):
            uu = unit or pp.config.volume_display_unit
            f = ref.split_unit(uu)[0]
            v = cmp('get_volumes', view.get_volumes(unit=unit),
                    per_well(lambda w: ref.measure(pp, w.contents, 'L') / f), uu)
            if v:
                return [v]
            for sub_arg in (slist[0], slist[3], [slist[0], slist[1]], slist):
                ss = sub_arg if isinstance(sub_arg, list) else [sub_arg]
                v = cmp('get_volumes', view.get_volumes(substance=sub_arg, unit=unit),
                        per_well(lambda w: ref.measure(pp, {s: w.contents.get(s, 0) for s in ss}, 'L') / f), uu)
                if v:
                    return [v]
        for unit in (None, 'umol', 'mmol', 'mol'):
            uu = unit or pp.config.moles_display_unit
            f = ref.split_unit(uu)[0]
            for sub_arg in (slist[0], slist[2], [slist[3], slist[4]], slist):
                ss = sub_arg if isinstance(sub_arg, list) else [sub_arg]
                v = cmp('get_moles', view.get_moles(sub_arg, unit=unit),
                        per_well(lambda w: ref.measure(pp, {s: w.contents.get(s, 0) for s in ss}, 'mol') / f), uu)
                if v:
                    return [v]
        got = view.get_substances()
        want = set()
        for w in wells.flatten():
            want.update(w.contents)
        if set(got) != want:
            return [V("Plate.get_substances | observer-mismatch | set", f"{where}[{sel}].get_substances()", case)]
    # whole-plate shortcuts
    for unit in ('uL', 'mL'):
        f = ref.split_unit(unit)[0]
        want = sum(round(float(ref.measure(pp, w.contents, 'L') / f), _prec(pp, unit)) for w in plate.wells.flatten())
        got = plate.get_volume(unit)
        if abs(got - want) > plate.wells.size * 10.0 ** -_prec(pp, unit) + 1e-9:
            return [V("Plate.get_volume | observer-mismatch | total", f"{where}.get_volume({unit!r}) = {got}, wells sum to "
                      f"{want}", case, want, got)]
    a, b = plate.get_volumes(unit='uL'), plate[:].get_volumes(unit='uL')
    if not numpy.array_equal(a, b):
        return [V("Plate.get_volumes | observer-mismatch | plate-vs-slice", f"{where}: plate and plate[:] disagree", case)]
    return vs


def _arg_names(act):
    out = []
    for k in ('src', 'dst', 'obj', 'solvent'):
        if k in act:
            out.append(e1.refname(act[k]))
    return out


def m_observers(ctx, pre, act, obs, post):
    pp, subs = ctx['pp'], ctx['subs']
    vs = []
    # the objects handed to the call are still values after it (returned or raised): their observers must agree too
    for name in _arg_names(act):
        o = pre.get(name)
        if o is not None and not e1.is_plate(o):
            vs.extend(check_container_observers(pp, subs, o, f"argument {name} after {e1.act_str(act)}", ctx['case'], ctx['k']))
            if vs:
                return vs
    if not obs['ok']:
        return
    for name, o in obs['new'].items():
        where = f"after {e1.act_str(act)}: {name}"
        if e1.is_plate(o):
            for r in range(o.wells.shape[0]):
                for c in range(o.wells.shape[1]):
                    vs.extend(check_container_observers(pp, subs, o.wells[r, c], f"{where}[{r + 1},{c + 1}]",
                                                        ctx['case'], ctx['k']))
                    if vs:
                        return vs
            vs.extend(check_plate_observers(pp, subs, o, where, ctx['case'], ctx['k']))
        else:
            vs.extend(check_container_observers(pp, subs, o, where, ctx['case'], ctx['k']))
        if vs:
            return vs
    return vs
