"""Violation collection, known-findings matching, replay files, evidence files."""
import collections
import hashlib
import json
import os
import time

from . import env

KNOWN_FILE = os.path.join(env.VERIF, 'KNOWN_FINDINGS.txt')
# experiments against scratch trees (PMC_SRC=...) may redirect evidence/ and replays/ so that they never touch the
# files of the registered checks
OUT = os.environ.get('PMC_OUT') or env.VERIF
MAX_SAMPLES = 6


def jsonable(x):
    if isinstance(x, dict):
        return {str(k): jsonable(v) for k, v in x.items()}
    if isinstance(x, (list, tuple, set, frozenset)):
        return [jsonable(v) for v in x]
    if isinstance(x, (str, int, bool)) or x is None:
        return x
    if isinstance(x, float):
        return x if x == x and abs(x) != float('inf') else repr(x)
    return repr(x)


def V(signature, message, case, expected=None, observed=None):
    """A violation record (plain dict so that it crosses process boundaries)."""
    return {'signature': signature, 'message': message, 'case': jsonable(case),
            'expected': jsonable(expected), 'observed': jsonable(observed)}


class Collector:
    def __init__(self, pid, tier, seed):
        self.pid, self.tier, self.seed = pid, tier, seed
        self.t0 = time.time()
        self.violations = []           # all records, in enumeration order
        self.counters = collections.Counter()
        self.cov = {}                  # extra coverage keys
        self.samples = []
        self.assumptions = []
        self.exhaustive = True
        self.rule = ''
        self.nontrivial = set()        # distinct non-trivial case keys (digests)

    # -- recording -------------------------------------------------------------------------------
    def add(self, vs):
        if vs:
            self.violations.extend(vs)

    def count(self, key, n=1):
        self.counters[key] += n

    def merge_counts(self, c):
        for k, v in c.items():
            self.counters[k] += v

    def sample(self, x):
        if len(self.samples) < MAX_SAMPLES:
            self.samples.append(jsonable(x))

    def note_nontrivial(self, keys):
        self.nontrivial.update(keys)


def _snippet(case):
    from . import snippet          # lazy: snippet imports e1, which imports this module
    if isinstance(case, dict) and '_config' in case:
        return (f"# run with a pyplate.yaml that sets {json.dumps(case['_config'])} (PYPLATE_CONFIG=<its directory>)\n"
                + (snippet.for_case(case['case']) or ''))
    return snippet.for_case(case)


def digest(obj):
    return hashlib.blake2b(repr(obj).encode(), digest_size=16).digest()


def load_known(pid):
    known, fixed = {}, []
    if os.path.exists(KNOWN_FILE):
        for line in open(KNOWN_FILE, encoding='utf-8'):
            line = line.rstrip('\n')
            if line.startswith('known:'):
                body = line[len('known:'):].strip()
                head, _, what = body.partition('::')
                parts = head.strip().split(' ', 1)
                if not parts[0].startswith('property='):
                    raise env.InternalError(f"malformed known: line: {line}")
                p = parts[0][len('property='):]
                sig = parts[1].strip()
                if not sig.startswith('sig='):
                    raise env.InternalError(f"malformed known: line: {line}")
                if p == pid:
                    known[sig[4:].strip()] = what.strip()
            elif line.startswith('fixed:'):
                if f'property={pid} ' in line:
                    fixed.append(line)
    return known, fixed


def finish(col, replay_fn=None):
    """Print verdict lines, write replay files and the evidence file; return the exit code."""
    pid = col.pid
    known, fixed = load_known(pid)
    by_sig = collections.OrderedDict()
    for v in col.violations:
        by_sig.setdefault(v['signature'], []).append(v)

    exit_code = 0
    observed_known = []
    new_sigs = []
    unreproduced = []
    for sig, vs in by_sig.items():
        if sig in known:
            observed_known.append(sig)
            print(f"KNOWN-FINDING: property={pid} {known[sig]} [sig={sig}; {len(vs)} instance(s) this run]")
            continue
        rep = vs[0]
        # determinism: the recorded case must reproduce the same signature twice, from scratch
        if replay_fn is not None:
            for attempt in (1, 2):
                again = replay_fn(rep['case'])
                sigs = [a['signature'] for a in again]
                head = ' | '.join(sig.split(' | ')[:2])
                # (a replay that reports the same site and kind of violation with another feature string - the first of several
                # simultaneous mismatches - reproduces the violation)
                if sig not in sigs and not any(' | '.join(x.split(' | ')[:2]) == head for x in sigs):
                    unreproduced.append(f"non-deterministic replay (attempt {attempt}) for signature {sig!r}: got {sigs!r}; "
                                        f"case={json.dumps(rep['case'])[:600]}")
                    break
            if unreproduced and unreproduced[-1].split('signature ')[1].startswith(repr(sig)):
                continue
        d = os.path.join(OUT, 'replays', pid)
        os.makedirs(d, exist_ok=True)
        path = os.path.join(d, hashlib.sha1(sig.encode()).hexdigest()[:10] + '.json')
        with open(path, 'w') as f:
            json.dump({'property': pid, 'signature': sig, 'message': rep['message'],
                       'expected': rep['expected'], 'observed': rep['observed'], 'case': rep['case'],
                       'instances_this_run': len(vs), 'tier': col.tier, 'seed': col.seed,
                       'config_overrides': json.loads(os.environ.get('PMC_CONFIG_OVERRIDES') or 'null'),
                       'tree': env.tree_identity(),
                       'how_to_replay': f"cd /verif && ./vcheck --replay {path}",
                       'python_snippet': _snippet(rep['case'])}, f, indent=1)
        print(f"VIOLATION property={pid} replay={path}")
        print(f"  signature: {sig}")
        print(f"  what: {rep['message']}")
        if rep['expected'] is not None or rep['observed'] is not None:
            print(f"  expected: {json.dumps(rep['expected'])[:400]}")
            print(f"  observed: {json.dumps(rep['observed'])[:400]}")
        print(f"  instances this run: {len(vs)}")
        new_sigs.append(sig)
        exit_code = 1
    if unreproduced:
        # a verdict of the exploration that a replay from a fresh process does not repeat is never reported as a violation; it is
        # an internal error of the run unless other, reproducible violations were found on the same tree (then it is noted:
        # what such an implementation does depends on what the process did before)
        if exit_code == 0:
            raise env.InternalError(unreproduced[0])
        for u in unreproduced:
            print(f"NOTE: seen during the exploration only (depends on earlier calls of the process): {u[:300]}")
    for sig, what in known.items():
        if sig not in by_sig:
            print(f"NOTE: known finding not observed on this tree: property={pid} {what} [sig={sig}]")

    wall = time.time() - col.t0
    cov = dict(col.cov)
    c = col.counters
    cov.setdefault('states', int(c.get('states', 0)))
    cov.setdefault('transitions', int(c.get('transitions', 0)))
    cov.setdefault('traces_validated_against_impl', int(c.get('traces', 0)))
    cov.setdefault('evaluations', int(c.get('evaluations', 0)))
    cov['distinct_nontrivial'] = len(col.nontrivial) if col.nontrivial else int(c.get('distinct_nontrivial', 0))
    cov['rule'] = col.rule
    cov['samples'] = col.samples or [{'note': 'no sample recorded'}]
    cov['exhaustive'] = bool(col.exhaustive)
    cov['counters'] = {k: int(v) for k, v in sorted(c.items())}
    cov['tree'] = env.tree_identity()
    cov['known_findings_observed'] = observed_known
    cov['new_violation_signatures'] = new_sigs
    cov['violation_instances'] = len(col.violations)
    ev = {'property_id': pid, 'tier': col.tier, 'seed': col.seed, 'level': 'model_checking',
          'coverage': cov, 'assumptions': col.assumptions, 'wall_s': round(wall, 3),
          'violations': len(new_sigs)}
    os.makedirs(os.path.join(OUT, 'evidence'), exist_ok=True)
    path = os.path.join(OUT, 'evidence', f'{pid}.json')
    tmp = path + '.tmp'
    with open(tmp, 'w') as f:
        json.dump(jsonable(ev), f, indent=1, sort_keys=True)
    os.replace(tmp, path)
    print(f"[{pid} {col.tier} seed={col.seed}] states={cov['states']} transitions={cov['transitions']} "
          f"traces={cov['traces_validated_against_impl']} evaluations={cov['evaluations']} "
          f"nontrivial={cov['distinct_nontrivial']} exhaustive={cov['exhaustive']} "
          f"known={len(observed_known)} new={len(new_sigs)} wall={wall:.1f}s")
    return exit_code
