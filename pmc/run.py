"""Command-line driver:  python -m pmc.run <Cxx> quick|thorough   |   python -m pmc.run --replay <file>."""
import importlib
import json
import os
import subprocess
import sys
import tempfile
import traceback

from . import env, report


def _seed():
    try:
        return int(os.environ.get('VERIF_SEED', '0') or 0)
    except ValueError:
        return 0


# ---- configuration children -------------------------------------------------------------------------------------------
# pyplate.yaml documents default_solid_density / default_enzyme_density ("can be set to float('inf') to give solids and
# enzymes zero volume"). The configuration is read once at import, so each one is explored by a child process that runs the
# same check (quick depth) under that configuration; its violations, counters and non-trivial classes are merged here.
DENSITY_CONFIGS = [{'default_solid_density': 'inf', 'default_enzyme_density': 'inf'},
                   {'default_solid_density': 2.165, 'default_enzyme_density': 1.35}]
CHILD_TIERS = {'C01': ('quick', 'thorough'), 'C02': ('quick', 'thorough'), 'C03': ('quick', 'thorough'),
               'C04': ('quick', 'thorough'), 'C05': ('quick', 'thorough'), 'C07': ('quick', 'thorough'),
               'C08': ('quick', 'thorough'), 'C11': ('quick', 'thorough'), 'C12': ('quick', 'thorough'),
               'C17': ('quick', 'thorough'), 'C19': ('quick', 'thorough'),
               'C10': ('quick', 'thorough'), 'C09': ('thorough',), 'C15': ('thorough',)}


def _child_env(overrides, seed=None):
    e = dict(os.environ)
    e['PMC_CONFIG_OVERRIDES'] = json.dumps(overrides)
    e['PYTHONHASHSEED'] = '0'
    if seed is not None:
        e['VERIF_SEED'] = str(seed)
    return e


def start_children(pid, tier, seed, tmp):
    if tier not in CHILD_TIERS.get(pid, ()) or os.environ.get('PMC_CONFIG_OVERRIDES') or os.environ.get('PMC_NO_CHILDREN'):
        return []
    # quick: the configuration without volumes (the one that changes which branches run); thorough: both
    picks = DENSITY_CONFIGS[:1] if tier == 'quick' else DENSITY_CONFIGS
    out = []
    for i, cfg in enumerate(picks):
        path = os.path.join(tmp, f'child{i}.json')
        cseed = seed + i
        p = subprocess.Popen([sys.executable, '-m', 'pmc.run', pid, 'quick', '--child', path], cwd=env.VERIF,
                             env=_child_env(cfg, cseed), stdout=subprocess.PIPE, stderr=subprocess.PIPE, text=True)
        out.append((cfg, cseed, path, p))
    return out


def merge_children(col, children):
    for cfg, cseed, path, p in children:
        _, err = p.communicate()
        if p.returncode != 0 or not os.path.exists(path):
            raise env.InternalError(f"configuration child {cfg} failed (exit {p.returncode}):\n{err[-3000:]}")
        with open(path) as f:
            res = json.load(f)
        for v in res['violations']:
            v['case'] = {'_config': cfg, 'case': v['case']}
            v['message'] = f"[under configuration {json.dumps(cfg)}] " + v['message']
        col.add(res['violations'])
        col.merge_counts(res['counters'])
        col.note_nontrivial({report.digest((json.dumps(cfg, sort_keys=True), d)) for d in res['nontrivial']})
        col.exhaustive = col.exhaustive and res['exhaustive']
        col.cov.setdefault('configuration_children', []).append(
            {'overrides': cfg, 'tier': 'quick', 'seed': cseed, 'violation_instances': len(res['violations']),
             'counters': {k: res['counters'].get(k, 0) for k in ('states', 'transitions', 'traces', 'evaluations')},
             'distinct_nontrivial': len(res['nontrivial'])})
    if children:
        col.assumptions.append("configurations of default_solid_density / default_enzyme_density other than the default are "
                               "explored at the quick depth (see coverage.configuration_children)")


def replay_in_config(pid, case):
    """Replay a case found by a configuration child: in a fresh process under that configuration."""
    with tempfile.TemporaryDirectory(prefix='pmc_child_') as tmp:
        cin, cout = os.path.join(tmp, 'case.json'), os.path.join(tmp, 'out.json')
        with open(cin, 'w') as f:
            json.dump(case['case'], f)
        p = subprocess.run([sys.executable, '-m', 'pmc.run', pid, '--child-replay', cin, cout], cwd=env.VERIF,
                           env=_child_env(case['_config']), capture_output=True, text=True)
        if p.returncode != 0:
            raise env.InternalError(f"replay under {case['_config']} failed:\n{p.stderr[-3000:]}")
        with open(cout) as f:
            return json.load(f)


def main(argv):
    if not argv:
        print(__doc__)
        return 2
    try:
        if argv[0] == '--replay':
            with open(argv[1]) as f:
                rec = json.load(f)
            if rec.get('config_overrides'):
                os.environ['PMC_CONFIG_OVERRIDES'] = json.dumps(rec['config_overrides'])
            if isinstance(rec['case'], dict) and '_config' in rec['case']:
                os.environ['PMC_CONFIG_OVERRIDES'] = json.dumps(rec['case']['_config'])
                rec['case'] = rec['case']['case']
            mod = importlib.import_module(f"pmc.checks.{rec['property']}")
            vs = mod.replay(rec['case'])
            hit = [v for v in vs if v['signature'] == rec['signature']]
            for v in vs:
                print(('REPRODUCED ' if v in hit else 'OTHER ') + v['signature'] + ' :: ' + v['message'])
            if hit:
                print(f"VIOLATION property={rec['property']} replay={argv[1]}")
                return 1
            print("not reproduced on this tree")
            return 0
        pid = argv[0]
        tier = argv[1] if len(argv) > 1 else os.environ.get('VERIF_TIER', 'quick')
        mod = importlib.import_module(f"pmc.checks.{pid}")
        if tier == '--child-replay':
            with open(argv[2]) as f:
                case = json.load(f)
            with open(argv[3], 'w') as f:
                json.dump(report.jsonable(mod.replay(case)), f)
            return 0
        if tier not in ('quick', 'thorough'):
            print(f"unknown tier {tier}")
            return 2
        col = report.Collector(pid, tier, _seed())
        if len(argv) > 3 and argv[2] == '--child':
            mod.run(col)
            with open(argv[3], 'w') as f:
                json.dump(report.jsonable({'violations': col.violations, 'counters': dict(col.counters),
                                           'nontrivial': sorted(d.hex() if isinstance(d, bytes) else str(d)
                                                                for d in col.nontrivial),
                                           'exhaustive': col.exhaustive}), f)
            return 0
        with tempfile.TemporaryDirectory(prefix='pmc_child_') as tmp:
            children = start_children(pid, tier, col.seed, tmp)
            try:
                mod.run(col)
                merge_children(col, children)
            finally:
                for _, _, _, p in children:
                    if p.poll() is None:
                        p.kill()
        inner = getattr(mod, 'replay', None)

        def replay_fn(case):
            if isinstance(case, dict) and '_config' in case:
                return replay_in_config(pid, case)
            return inner(case)
        return report.finish(col, replay_fn if inner else None)
    except env.InternalError as e:
        print(f"INTERNAL-ERROR: {e}", file=sys.stderr)
        return 2
    except Exception:
        traceback.print_exc()
        print("INTERNAL-ERROR: unexpected exception in the verification machinery", file=sys.stderr)
        return 2


if __name__ == '__main__':
    sys.exit(main(sys.argv[1:]))
