"""Command-line driver:  python -m pmc.run <Cxx> quick|thorough   |   python -m pmc.run --replay <file>."""
import importlib
import json
import os
import sys
import traceback

from . import env, report


def _seed():
    try:
        return int(os.environ.get('VERIF_SEED', '0') or 0)
    except ValueError:
        return 0


def main(argv):
    if not argv:
        print(__doc__)
        return 2
    try:
        if argv[0] == '--replay':
            with open(argv[1]) as f:
                rec = json.load(f)
            if rec.get('config_overrides'):
                os.environ['PMC_CONFIG_OVERRIDES'] = json.dumps(rec['config_overrides'])
            mod = importlib.import_module(f"pmc.checks.{rec['property']}")
            vs = mod.replay(rec['case'])
            hit = [v for v in vs if v['signature'] == rec['signature']]
            for v in vs:
                print(('REPRODUCED ' if v in hit else 'OTHER ') + v['signature'] + ' :: ' + v['message'])
            if hit:
                print(f"VIOLATION property={rec['property']} replay={argv[1]}")
                return 1
            print("not reproduced on this tree")
            return 0
        pid = argv[0]
        tier = argv[1] if len(argv) > 1 else os.environ.get('VERIF_TIER', 'quick')
        if tier not in ('quick', 'thorough'):
            print(f"unknown tier {tier}")
            return 2
        mod = importlib.import_module(f"pmc.checks.{pid}")
        col = report.Collector(pid, tier, _seed())
        mod.run(col)
        return report.finish(col, getattr(mod, 'replay', None))
    except env.InternalError as e:
        print(f"INTERNAL-ERROR: {e}", file=sys.stderr)
        return 2
    except Exception:
        traceback.print_exc()
        print("INTERNAL-ERROR: unexpected exception in the verification machinery", file=sys.stderr)
        return 2


if __name__ == '__main__':
    sys.exit(main(sys.argv[1:]))
