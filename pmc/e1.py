"""E1 — value histories: worlds of containers and plates, JSON-able actions applied through the real API,
canonical states, level-synchronous BFS with monitors."""
import hashlib

import numpy

from . import env, par, ref, selectors
from .report import V

# ---- valuations: role names are fixed, parameters vary (no parameter is a power of ten) --------------------------
VALUATIONS = [
    {'water': ('liquid', 18.0153, 1.0), 'dmso': ('liquid', 78.13, 1.1004), 'tea': ('liquid', 101.19, 0.726),
     'nacl': ('solid', 58.4428), 'na2so4': ('solid', 142.04), 'lipase': ('enzyme', '10 U/mg')},
    {'water': ('liquid', 46.068, 0.7893), 'dmso': ('liquid', 92.094, 1.261), 'tea': ('liquid', 92.141, 0.8669),
     'nacl': ('solid', 119.002), 'na2so4': ('solid', 180.156), 'lipase': ('enzyme', '7 U/mg')},
    {'water': ('liquid', 32.04, 0.792), 'dmso': ('liquid', 153.82, 1.5867), 'tea': ('liquid', 60.052, 1.049),
     'nacl': ('solid', 84.007), 'na2so4': ('solid', 342.3), 'lipase': ('enzyme', '0.25 mg/U')},
]
CLASSES = {'SOLID': 1, 'LIQUID': 2, 'ENZYME': 3}
# twins: distinct substances that carry the NAME of another role (a hydrate next to the anhydrous salt, another grade of a
# solvent, an inactive solid preparation next to the enzyme). A substance is what its parameters say, not what it is called.
TWINS = {'nacl_h': ('nacl', 'solid', 1.3083), 'dmso_x': ('dmso', 'liquid', 1.0417, 0.9127), 'lipase_s': ('lipase', 'solid', None)}


def ident(s):
    """What a substance IS, independent of Substance.__eq__/__hash__ (name, kind, molecular weight, density, activity)."""
    return (s.name, 'enzyme' if s.is_enzyme() else 'liquid' if s.is_liquid() else 'solid', getattr(s, 'mol_weight', None),
            getattr(s, 'density', None), getattr(s, 'specific_activity', None))


def by_ident(contents):
    """contents keyed by ident (amounts of entries the implementation keeps apart are added only if they ARE the same)."""
    out = {}
    for s, a in contents.items():
        out[ident(s)] = out.get(ident(s), 0.0) + a
    return out


def substances(pp, vidx, twins=True):
    out = {}
    val = VALUATIONS[vidx % len(VALUATIONS)]
    for name, spec in val.items():
        if spec[0] == 'liquid':
            out[name] = pp.Substance.liquid(name, spec[1], spec[2])
        elif spec[0] == 'solid':
            out[name] = pp.Substance.solid(name, spec[1])
        else:
            out[name] = pp.Substance.enzyme(name, spec[1])
    if twins:
        for role, t in TWINS.items():
            base = val[t[0]]
            if t[1] == 'solid':
                out[role] = pp.Substance.solid(t[0], 231.7 if t[2] is None else round(base[1] * t[2], 4))
            else:
                out[role] = pp.Substance.liquid(t[0], round(base[1] * t[2], 4), round(base[2] * t[3], 4))
    return out


# ---- worlds ------------------------------------------------------------------------------------------------------
# object spec: ('container', max_volume, [(substance, quantity), ...]) | ('plate', max_volume_per_well, rows, cols)
W_DEFAULT = {
    'A': ('container', 'inf L', [('water', '10 mL'), ('nacl', '2 mmol'), ('lipase', '2 U')]),
    'B': ('container', '20 mL', [('dmso', '5 mL'), ('nacl', '1 mmol')]),
    'E': ('container', '2 mL', []),
    'G': ('container', 'inf L', [('nacl', '100 mg'), ('na2so4', '50 mg')]),
    'P': ('plate', '500 uL', 2, 3),
    'Q': ('plate', '500 uL', 2, 2),
}


def seed_history_P():
    """P pre-loaded non-uniformly: well i receives i*20 uL of A and, for even i, 10 uL of B."""
    h, i = [], 0
    for r in (1, 2):
        for c in (1, 2, 3):
            i += 1
            h.append({'op': 'transfer', 'src': 'A', 'dst': ['P', f"({r}, {c})"], 'q': f"{i * 20} uL"})
            if i % 2 == 0:
                h.append({'op': 'transfer', 'src': 'B', 'dst': ['P', f"({r}, {c})"], 'q': "10 uL"})
    return h


def make_world(pp, subs, spec):
    w = {}
    for name, s in spec.items():
        if s[0] == 'container':
            w[name] = pp.Container(name, s[1], [(subs[x], q) for x, q in s[2]] or None)
        else:
            rows, cols = s[2], s[3]
            # an optional 5th entry gives the object's own name (two versions of one plate share their name)
            w[name] = pp.Plate(s[4] if len(s) > 4 else name, s[1], rows=rows, columns=cols)
    return w


def is_plate(o):
    return hasattr(o, 'wells')


def is_slice(o):
    return hasattr(o, 'plate') and hasattr(o, 'slices')


def refname(r):
    return r if isinstance(r, str) else r[0]


def resolve(world, r):
    if isinstance(r, str):
        return world[r]
    o = world[r[0]][selectors.ev(r[1])]
    for sub in r[2:]:               # sub-slice of a slice (0-based, undocumented)
        _ = (o.shape, o.size)       # a user may well have looked at the parent first: cached values must not leak
        o = o[selectors.ev(sub)]
    return o


def region(world, r):
    """Reference set of wells addressed by an object reference: list of (name, (row, col)|None) in pairing order,
    plus the shape; computed by the independent resolver."""
    o = world[refname(r)]
    if not is_plate(o):
        return [(refname(r), None)], None
    if isinstance(r, str):
        sel = slice(None)
    else:
        sel = selectors.ev(r[1])
    kind, wells, shape = selectors.resolve(list(o.row_names), list(o.column_names), sel)
    if kind != selectors.OK:
        return None, None
    if not isinstance(r, str) and len(r) > 2:
        # sub-slice of a slice: undocumented; the reference reading is 0-based numpy indexing of the parent's grid of wells
        # (the unchanged tree agrees with it on every in-range index; out-of-range sub-indices are not judged)
        import numpy
        grid = numpy.empty(shape, dtype=object)
        flat = grid.reshape(-1)
        for i, w in enumerate(wells):
            flat[i] = w
        for sub in r[2:]:
            if grid.ndim != 2:
                return None, None
            try:
                grid = grid[selectors.ev(sub)]
            except IndexError:
                return None, None
            if not isinstance(grid, numpy.ndarray):
                one = numpy.empty((1, 1), dtype=object)
                one[0, 0] = grid
                grid = one
            elif grid.ndim == 1:
                return None, None          # an int on one axis only: shape conventions differ, not judged
        wells = [w for w in grid.reshape(-1)]
        shape = grid.shape
        if not wells:
            return None, None
    return [(refname(r), w) for w in wells], shape


def well_of(world, addr):
    name, rc = addr
    o = world[name]
    return o if rc is None else o.wells[rc[0], rc[1]]


# ---- actions -----------------------------------------------------------------------------------------------------
def concretise(pp, world, act):
    """Quantities relative to what the source holds: '@<fraction>@<unit>' becomes a literal request for that fraction of the
    (least filled) source well, measured by the reference model in the unit named, written with 15 significant digits."""
    q = act.get('q', '')
    if not (isinstance(q, str) and q.startswith('@')) or act['op'] != 'transfer':
        return act
    from . import ref
    from fractions import Fraction as F
    _, frac, unit = q.split('@')
    src = world[refname(act['src'])]
    if is_plate(src):
        o = resolve(world, act['src'])
        wells = [o] if hasattr(o, 'contents') else list(numpy.asarray(o.get() if is_slice(o) else o.wells).flatten())
    else:
        wells = [src]
    m = min(ref.measure(pp, w.contents, unit) for w in wells)
    return dict(act, q=f"{float(m * F(frac)):.15g} {unit}")


def apply(pp, subs, world, act, operands=None):
    """Perform one action through the real API. Returns obs = {'ok', 'exc', 'new': {name: object}, 'ret'}.
    The world dict is NOT modified; commit(world, obs) rebinds the names.
    operands: a dict in which the operand objects (slices included) are kept, and from which they are taken when present:
    calling apply twice with the same dict performs the action twice through the very same slice objects."""
    act = concretise(pp, world, act)
    op = act['op']
    held = []           # (list object handed to the call, its value before)
    res = resolve
    if operands is not None:
        def res(w, r):
            k = repr(r)
            if k not in operands:
                operands[k] = resolve(w, r)
            return operands[k]
    try:
        if op == 'transfer':
            src, dst = res(world, act['src']), res(world, act['dst'])
            dbase = world[refname(act['dst'])]
            if is_plate(dbase):
                r = pp.Plate.transfer(src, dst, act['q'])
            else:
                r = pp.Container.transfer(src, dst, act['q'])
            new = {refname(act['src']): r[0]}
            new[refname(act['dst'])] = r[1]          # as a recipe does: source first, then destination
        elif op == 'remove':
            what = CLASSES[act['what']] if act['what'] in CLASSES else subs[act['what']]
            r = res(world, act['obj']).remove(what)
            new = {refname(act['obj']): r}
        elif op == 'fill_to':
            r = res(world, act['obj']).fill_to(subs[act['solvent']], act['q'])
            new = {refname(act['obj']): r}
        elif op == 'dilute':
            r = world[act['obj']].dilute(subs[act['solute']], act['conc'], subs[act['solvent']], act.get('new_name'))
            new = {act['obj']: r}          # a renamed result stays bound to the name it was declared under
        elif op == 'observe':   # every read-only observer; returns nothing new
            o = res(world, act['obj'])
            base = world[refname(act['obj'])]
            if is_plate(base):
                o.get_substances(), o.get_volumes(), o.get_volumes(subs['water'], 'mL'), o.get_moles(subs['nacl'])
                if is_plate(o):
                    o.get_volume('uL')
            else:
                o.get_substances(), o.get_volume('mL'), o.has_liquid()
                for sub in subs.values():
                    try:
                        o.get_concentration(sub, 'M' if not sub.is_enzyme() else 'U/mL')
                    except ZeroDivisionError:
                        pass
            r, new = None, {}
        elif op == 'add':     # constructor-based addition: a new container with the old contents plus one substance
            old = world[act['obj']]
            r = old._add(subs[act['what']], act['q'])
            new = {act['obj']: r}
        elif op == 'create_solution':
            solvent = world[act['solvent']] if act['solvent'] in world else subs[act['solvent']]
            solute = [subs[x] for x in act['solute']] if isinstance(act['solute'], list) else subs[act['solute']]
            kw = {k: (list(v) if isinstance(v, list) else v) for k, v in act['kw'].items()}
            # lists handed to the call are arguments too: they must come back unchanged, returned or raised
            for lst in [solute] + list(kw.values()):
                if isinstance(lst, list):
                    held.append((lst, list(lst)))
            r = pp.Container.create_solution(solute, solvent, act['name'], **kw)
            if isinstance(r, tuple):
                new = {act['solvent']: r[0], act['name']: r[1]}
            else:
                new = {act['name']: r}
        elif op == 'create_solution_from':
            solvent = world[act['solvent']] if act['solvent'] in world else subs[act['solvent']]
            r = pp.Container.create_solution_from(world[act['src']], subs[act['solute']], act['conc'], solvent,
                                                  act['q'], act['name'])
            if len(r) == 3:
                new = {act['src']: r[0], act['solvent']: r[1], act['name']: r[2]}
            else:
                new = {act['src']: r[0], act['name']: r[1]}
        elif op == 'new_container':
            contents = [(subs[x], q) for x, q in act['contents']] or None
            if contents:
                held.append((contents, list(contents)))
            r = pp.Container(act['name'], act['max'], contents)
            new = {act['name']: r}
        else:
            raise env.InternalError(f"unknown op {op}")
    except env.InternalError:
        raise
    except Exception as e:  # noqa: every library exception is an observation
        return {'ok': False, 'exc': e, 'new': {}, 'ret': None, 'lists_changed': [b for a, b in held if a != b]}
    return {'ok': True, 'exc': None, 'new': new, 'ret': r, 'lists_changed': [b for a, b in held if a != b]}


def commit(world, obs):
    w = dict(world)
    w.update(obs['new'])
    return w


def build(pp, vidx, spec, history, path_objects=None, watch=None):
    """Fresh world from a seed spec and a history of actions (failed actions leave the world unchanged).
    If path_objects is a list, every object ever bound along the history is appended as (name, exact fp, object).
    watch(subs, world, act, obs, k) is called on every transition of the history (a replay looks at the objects along the way as
    the exploration did: what was looked at earlier is part of the history)."""
    env.clear_caches(pp)
    subs = substances(pp, vidx)
    world = make_world(pp, subs, spec)
    if path_objects is not None:
        path_objects.extend((n, exact_obj(o), o) for n, o in world.items())
    if watch is not None:
        watch(subs, world, None, None, -1)
    for k, act in enumerate(history):
        obs = apply(pp, subs, world, act)
        if watch is not None:
            watch(subs, world, act, obs, k)
        if obs['ok']:
            world = commit(world, obs)
            if path_objects is not None:
                path_objects.extend((n, exact_obj(o), o) for n, o in obs['new'].items())
    return subs, world


# ---- canonical forms / fingerprints ------------------------------------------------------------------------------
def contents_key(c, nd=6):
    return tuple(sorted((s.name, round(a, nd)) for s, a in c.contents.items() if round(a, nd) != 0))


def canon_obj(o, nd=6):
    if is_plate(o):
        return ('P', o.name, tuple(contents_key(w, nd) for w in o.wells.flatten()))
    return ('C', o.name, contents_key(o, nd), o.max_volume)


def canon(world):
    return tuple(canon_obj(world[n]) for n in sorted(world))


def digest(x):
    return hashlib.blake2b(repr(x).encode(), digest_size=16).digest()


def exact_obj(o):
    """Exact structural fingerprint (C04 and frame conditions): every observable field, no rounding."""
    if is_plate(o):
        return ('P', o.name, o.make, o.n_rows, o.n_columns, tuple(o.row_names), tuple(o.column_names),
                o.max_volume_per_well, tuple(exact_obj(w) for w in o.wells.flatten()), o.wells.shape)
    if is_slice(o):
        return ('S', id(o.plate), exact_obj(o.plate), repr(o.slices))
    if hasattr(o, 'contents'):
        # get_substances() is a cached answer: a poisoned cache is an observable change of the object
        return ('C', o.name, tuple(sorted((s.name, repr(a)) for s, a in o.contents.items())), repr(o.volume),
                repr(o.max_volume), getattr(o, 'instructions', None), tuple(sorted(s.name for s in o.get_substances())))
    if hasattr(o, 'mol_weight'):
        return ('X', o.name, o._type, o.mol_weight, o.density, o.concentration, o.specific_activity)
    return ('?', repr(o))


def exact_subs(subs):
    """Every attribute of every Substance of the world, and its hash (Substances are dictionary keys everywhere)."""
    return tuple((n, exact_obj(s), hash(s)) for n, s in sorted(subs.items()))


def exact_world(world):
    return tuple(exact_obj(world[n]) for n in sorted(world))


def act_str(a):
    """Readable rendering of an action for messages and samples."""
    def r(x):
        return x if isinstance(x, str) else f"{x[0]}[{x[1]}]" + ''.join(f"[{y}]" for y in x[2:])
    op = a['op']
    if op == 'transfer':
        return f"transfer({r(a['src'])} -> {r(a['dst'])}, {a['q']!r})"
    if op == 'remove':
        return f"{r(a['obj'])}.remove({a['what']})"
    if op == 'fill_to':
        return f"{r(a['obj'])}.fill_to({a['solvent']}, {a['q']!r})"
    if op == 'dilute':
        return f"{a['obj']}.dilute({a['solute']}, {a['conc']!r}, {a['solvent']}" + (f", name={a['new_name']!r})" if a.get('new_name') else ")")
    if op == 'add':
        return f"{a['obj']}+({a['what']}, {a['q']!r})"
    if op == 'observe':
        return f"observe({r(a['obj'])})"
    if op == 'create_solution':
        return f"create_solution({a['solute']}, {a['solvent']}, {a['name']!r}, {a['kw']})"
    if op == 'create_solution_from':
        return f"create_solution_from({a['src']}, {a['solute']}, {a['conc']!r}, {a['solvent']}, {a['q']!r}, {a['name']!r})"
    return repr(a)


# ---- BFS ---------------------------------------------------------------------------------------------------------
class Explorer:
    """Level-synchronous BFS. A state is stored as the history that reaches it; workers rebuild it by replay."""

    def __init__(self, pp, vidx, spec, seed_history, alphabet, monitors, label='', track_path=False, via_recipe=False,
                 repeat=False):
        self.track_path = track_path
        self.via_recipe = via_recipe          # perform every action as a single recipe step (declare, add, bake)
        # repeat: the judged call is the SECOND of two identical calls made through the very same operand objects (a slice kept in
        # a variable and used again); operations return new values, so it is judged against the same pre-state as the first
        self.repeat = repeat
        self.pp, self.vidx, self.spec = pp, vidx, spec
        self.seed_history = list(seed_history)
        self.alphabet = list(alphabet)
        self.monitors = list(monitors)
        self.label = label

    def case(self, hist_idx, act):
        return {'vidx': self.vidx, 'spec': self.spec, 'seed_history': self.seed_history,
                'history': [self.alphabet[i] for i in hist_idx], 'act': act, 'sweep': self.label, 'via_recipe': self.via_recipe,
                'repeat': self.repeat}

    def _expand(self, item):
        """Worker: rebuild the state reached by hist_idx, apply the actions lo..hi, run monitors."""
        hist_idx, lo, hi = item
        pp = self.pp
        history = self.seed_history + [self.alphabet[i] for i in hist_idx]
        path_objects = [] if self.track_path else None
        subs, world = build(pp, self.vidx, self.spec, history, path_objects)
        pre_exact = exact_world(world)
        subs_exact = exact_subs(subs)
        out, viols = [], []
        stats = {'accepted': 0, 'refused': 0}
        k = len(history)
        for ai in range(lo, hi):
            act = concretise(pp, world, self.alphabet[ai]) if not self.via_recipe else self.alphabet[ai]
            env.clear_caches(pp)
            first_changed = None
            if self.repeat:
                held = {}
                obs = apply(pp, subs, world, act, held)
                if obs['ok']:
                    first = dict(obs['new'])
                    fp1 = {n: exact_obj(o) for n, o in first.items()}
                    obs = apply(pp, subs, world, act, held)
                    # the objects that the first call returned are values: the identical second call leaves them alone
                    first_changed = sorted(n for n, o in first.items() if exact_obj(o) != fp1[n])
            else:
                obs = (apply_via_recipe if self.via_recipe else apply)(pp, subs, world, act)
            post = commit(world, obs) if obs['ok'] else world
            ctx = {'pp': pp, 'subs': subs, 'k': k, 'case': self.case(hist_idx, act), 'pre_exact': pre_exact,
                   'path_objects': path_objects or (), 'subs_exact': subs_exact, 'first_changed': first_changed}
            for m in self.monitors:
                viols.extend(m(ctx, world, act, obs, post) or ())
            if exact_subs(subs) != subs_exact:
                subs, world = build(pp, self.vidx, self.spec, history, path_objects)      # a Substance was written to
                subs_exact = exact_subs(subs)
                pre_exact = exact_world(world)
            if exact_world(world) != pre_exact or any(exact_obj(o) != fp for _, fp, o in path_objects or ()):
                # the call modified its arguments in place (C04 reports it); restore a clean pre-state
                path_objects = [] if self.track_path else None
                subs, world = build(pp, self.vidx, self.spec, history, path_objects)
                pre_exact = exact_world(world)
            if obs['ok']:
                stats['accepted'] += 1
                out.append((ai, digest(canon(post)), _obs_class(act, obs)))
            else:
                stats['refused'] += 1
                out.append((ai, None, _obs_class(act, obs)))
        return out, viols, stats

    def run(self, depth, col, max_states=None):
        pp = self.pp
        subs, world = build(pp, self.vidx, self.spec, self.seed_history)
        seen = {digest(canon(world))}
        frontier = [()]
        classes = set()
        transitions = 0
        histories = 0
        per_level = []
        for level in range(depth):
            n = len(self.alphabet)
            parts = 1 if len(frontier) >= 4 * env.nprocs() else max(1, min(n // 8 or 1, 4 * env.nprocs() // len(frontier)))
            step = -(-n // parts)
            items = [(h, lo, min(n, lo + step)) for h in frontier for lo in range(0, n, step)]
            res = par.pmap(self._expand, items, chunk=1 if len(items) < 64 * env.nprocs() else None)
            nxt = []
            for (hist, _, _), (out, viols, stats) in zip(items, res):
                col.add(viols)
                col.count('accepted', stats['accepted'])
                col.count('refused', stats['refused'])
                for ai, key, oc in out:
                    transitions += 1
                    classes.add(oc)
                    if key is not None and key not in seen:
                        seen.add(key)
                        nxt.append(hist + (ai,))
            histories += len(frontier)
            per_level.append({'level': level, 'states_expanded': len(frontier), 'new_states': len(nxt)})
            if level == min(1, depth - 1) and frontier:
                h = frontier[len(frontier) // 2]
                col.sample({'sweep': self.label, 'valuation': self.vidx,
                            'history': [act_str(self.alphabet[i]) for i in h]})
            frontier = nxt
            if max_states and len(seen) > max_states:
                col.exhaustive = False
                col.cov.setdefault('caps_hit', []).append({'sweep': self.label, 'level': level, 'cap': max_states})
                break
        col.count('states', len(seen))
        col.count('transitions', transitions)
        col.count('traces', transitions)
        col.count('evaluations', transitions * max(1, len(self.monitors)))
        col.note_nontrivial({digest((self.label, self.vidx, c)) for c in classes})
        col.cov.setdefault('sweeps', []).append(
            {'sweep': self.label, 'valuation': self.vidx, 'alphabet': len(self.alphabet), 'depth': depth,
             'states': len(seen), 'transitions': transitions, 'histories_expanded': histories,
             'frontier_left_unexpanded': len(frontier), 'distinct_observation_classes': len(classes),
             'per_level': per_level})
        return seen


def _obs_class(act, obs):
    if obs['ok']:
        return (act['op'], 'ok', _form(act))
    return (act['op'], type(obs['exc']).__name__, _form(act))


def _form(act):
    def f(r):
        return 'obj' if isinstance(r, str) else 'slice'
    if act['op'] == 'transfer':
        return (f(act['src']), f(act['dst']), ref.parse_quantity(act['q'])[1] if _pq(act['q']) else '?')
    if 'obj' in act:
        return (f(act['obj']),)
    return ()


def _pq(q):
    try:
        ref.parse_quantity(q)
        return True
    except ValueError:
        return False


InternalErrorPassthrough = env.InternalError


def replay_case(pp, case, monitors):
    """Re-execute one recorded transition from scratch and run the monitors on it."""
    history = case['seed_history'] + case['history']
    path_objects = []

    def watch(subs_, world_, act_, obs_, k_):
        # the exploration ran the monitors (observers included) on every transition that leads here, on these very objects
        ctx_ = {'pp': pp, 'subs': subs_, 'k': k_, 'case': case, 'pre_exact': None, 'path_objects': (), 'subs_exact': None,
                'first_changed': None}
        if act_ is None:
            if any(getattr(m, '__name__', '') == 'm_observers' for m in monitors):
                from . import monitors as _mon          # the seed world is looked at before anything is done with it
                for n_, o_ in sorted(world_.items()):
                    try:
                        (_mon.check_plate_observers if is_plate(o_) else _mon.check_container_observers)(pp, subs_, o_, n_, case)
                    except Exception:  # noqa
                        pass
            return
        post_ = commit(world_, obs_) if obs_['ok'] else world_
        for m in monitors:
            try:
                m(ctx_, world_, act_, obs_, post_)
            except InternalErrorPassthrough:
                raise
            except Exception:  # noqa: verdicts (and failures) along the way belong to the cases of those transitions
                pass
    subs, world = build(pp, case['vidx'], {k: tuple(v) for k, v in case['spec'].items()}, history, path_objects,
                        watch)
    env.clear_caches(pp)
    act = case['act']
    pre_exact = exact_world(world)
    subs_exact = exact_subs(subs)
    first_changed = None
    if case.get('repeat'):
        held = {}
        obs = apply(pp, subs, world, act, held)
        if obs['ok']:
            first = dict(obs['new'])
            fp1 = {n: exact_obj(o) for n, o in first.items()}
            obs = apply(pp, subs, world, act, held)
            first_changed = sorted(n for n, o in first.items() if exact_obj(o) != fp1[n])
    else:
        obs = (apply_via_recipe if case.get('via_recipe') else apply)(pp, subs, world, act)
    post = commit(world, obs) if obs['ok'] else world
    ctx = {'pp': pp, 'subs': subs, 'k': len(history), 'case': case, 'pre_exact': pre_exact, 'path_objects': path_objects,
           'subs_exact': subs_exact, 'first_changed': first_changed}
    vs = []
    for m in monitors:
        vs.extend(m(ctx, world, act, obs, post) or ())
    return vs


# ---- the same action performed as a single recipe step ------------------------------------------------------------
def apply_via_recipe(pp, subs, world, act, prelude=()):
    """Declare the objects the action mentions, add the action as one recipe step, bake.
    obs['new'] holds the baked objects under their names (all declared + created ones).
    prelude: actions added as earlier steps of the same recipe (operands taken from the declared objects too)."""
    passed = []          # (fingerprint before, object) of everything handed to the recipe, slices included
    try:
        r = pp.Recipe()
        used = []
        for pre in prelude:
            _add_recipe_step(pp, subs, world, r, used, passed, pre)
        _add_recipe_step(pp, subs, world, r, used, passed, act)
        res = r.bake()
    except env.InternalError:
        raise
    except Exception as e:  # noqa
        return {'ok': False, 'exc': e, 'new': {}, 'ret': None, 'passed': passed}
    return {'ok': True, 'exc': None, 'new': dict(res), 'ret': res, 'recipe': r, 'passed': passed}


def _add_recipe_step(pp, subs, world, r, used, passed, act):
    op = act['op']
    if True:

        def use(name):
            if name in world and name not in used:
                r.uses(world[name])
                used.append(name)

        def rref(x):
            use(refname(x))
            o = resolve(world, x)
            passed.append((exact_obj(o), o))
            return o
        if op == 'transfer':
            r.transfer(rref(act['src']), rref(act['dst']), act['q'])
        elif op == 'remove':
            what = CLASSES[act['what']] if act['what'] in CLASSES else subs[act['what']]
            r.remove(rref(act['obj']), what)
        elif op == 'fill_to':
            r.fill_to(rref(act['obj']), subs[act['solvent']], act['q'])
        elif op == 'dilute':
            r.dilute(rref(act['obj']), subs[act['solute']], act['conc'], subs[act['solvent']], act.get('new_name'))
        elif op == 'create_solution':
            solvent = rref(act['solvent']) if act['solvent'] in world else subs[act['solvent']]
            solute = [subs[x] for x in act['solute']] if isinstance(act['solute'], list) else subs[act['solute']]
            r.create_solution(solute, solvent, act['name'], **act['kw'])
        elif op == 'create_solution_from':
            if act['solvent'] in world:
                raise env.InternalError("recipe create_solution_from takes a substance solvent only")
            r.create_solution_from(rref(act['src']), subs[act['solute']], act['conc'], subs[act['solvent']], act['q'],
                                   act['name'])
        elif op == 'new_container':
            r.create_container(act['name'], act['max'], [(subs[x], q) for x, q in act['contents']] or None)
        else:
            raise env.InternalError(f"no recipe form for {op}")
