"""Run a worker function in a separate process under another configuration (the config is read once at import)."""
import importlib
import json
import os
import subprocess
import sys

from . import env


def run_in_config(module, func, overrides, arg=None, timeout=3600):
    e = dict(os.environ)
    e['PMC_CONFIG_OVERRIDES'] = json.dumps(overrides or {})
    e['PYTHONHASHSEED'] = '0'
    p = subprocess.run([sys.executable, '-m', 'pmc.sub', module, func, json.dumps(arg)], cwd=env.VERIF, env=e,
                       capture_output=True, text=True, timeout=timeout)
    if p.returncode != 0:
        raise env.InternalError(f"worker {module}.{func} under {overrides} failed:\n{p.stderr[-3000:]}")
    line = p.stdout.strip().splitlines()[-1]
    return json.loads(line)


def start_in_config(module, func, overrides, arg=None):
    e = dict(os.environ)
    e['PMC_CONFIG_OVERRIDES'] = json.dumps(overrides or {})
    e['PYTHONHASHSEED'] = '0'
    return subprocess.Popen([sys.executable, '-m', 'pmc.sub', module, func, json.dumps(arg)], cwd=env.VERIF, env=e,
                            stdout=subprocess.PIPE, stderr=subprocess.PIPE, text=True)


def finish(proc, what=''):
    out, err = proc.communicate()
    if proc.returncode != 0:
        raise env.InternalError(f"worker {what} failed:\n{err[-3000:]}")
    return json.loads(out.strip().splitlines()[-1])


if __name__ == '__main__':
    mod = importlib.import_module(sys.argv[1])
    res = getattr(mod, sys.argv[2])(json.loads(sys.argv[3]))
    from .report import jsonable
    sys.stdout.write('\n' + json.dumps(jsonable(res)) + '\n')
