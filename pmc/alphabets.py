"""Action menus for E1 (DESIGN Appendix C). Canonical order = simplest first."""
import itertools

# slice geometries of the 2x3 plate P (17) and of the 2x2 plate Q
P_SLICES = [
    "'A:1'", "('A', 2)", "(1, 3)", "'B:1'", "(2, '2')", "('B', 3)",
    "1", "'B'",
    "(slice(None), 1)", "(slice(None), '2')", "(slice(None), 3)",
    "(slice(1, 2), slice(1, 2))", "(slice('A', 'B'), slice(2, 3))", "(1, slice(2, 3))",
    "(slice(None), slice(None, None, 2))",
    "['A:1', 'B:3']", "[('B', 2), ('A', 1)]",
]
# a list that names a well twice: what it addresses is undocumented (not judged), but an accepted transfer still conserves
DUP_SLICES = ["['A:1', ('B', 2), (1, 1)]", "[(2, 3), 'B:3']"]
Q_SLICES = ["'A:1'", "(2, 2)", "1", "(slice(None), 2)", "slice(None)", "(slice(None), slice(1, 2))",
            "['A:2', 'B:1']", "[(1, 1)]"]

PREFIXES = ['n', 'u', 'µ', 'm', 'c', 'd', '', 'da', 'k', 'M']


def T(src, dst, q):
    return {'op': 'transfer', 'src': src, 'dst': dst, 'q': q}


def history_alphabet():
    a = []
    for s, d in (('A', 'B'), ('B', 'A'), ('A', 'E'), ('B', 'E'), ('E', 'A'), ('G', 'E')):
        for q in ('1 mL', '0.3 g', '0.7 mmol', '0.5 U'):
            a.append(T(s, d, q))
    for s, d in (('A', 'P'), ('A', ['P', "(1, 1)"]), ('B', ['P', "(2, slice(None))"]), ('A', ['Q', "(slice(None), 1)"])):
        for q in ('40 uL', '15 mg'):
            a.append(T(s, d, q))
    for s, d in ((['P', "(1, slice(None))"], 'E'), ('P', 'B'), (['P', "(2, 2)"], 'A')):
        a.append(T(s, d, '10 uL'))
    a += [
        T(['P', "(1, 1)"], ['P', "(2, slice(None))"], '5 uL'),                      # 1 -> N, same plate
        T(['P', "(1, slice(None))"], ['P', "(2, slice(None))"], '5 uL'),            # N -> N, same plate
        T(['P', "(slice(None), 1)"], ['Q', "(slice(None), 2)"], '5 uL'),            # N -> N, two plates
        T(['P', "(slice(None), slice(1, 2))"], 'Q', '2 mg'),                        # 2x2 -> 2x2
        T(['P', "(1, slice(None))"], ['Q', "(1, 1)"], '5 uL'),                      # N -> 1
        T(['P', "(1, slice(None))"], ['Q', "(1, slice(None))"], '5 uL'),            # 1x3 vs 1x2: must be rejected
        T(['Q', "'A:1'"], ['P', "['A:1', 'B:3']"], '3 uL'),                          # 1 -> list
        {'op': 'remove', 'obj': 'P', 'what': 'water'},
        {'op': 'remove', 'obj': 'A', 'what': 'LIQUID'},
        {'op': 'remove', 'obj': ['P', "(slice(None), 2)"], 'what': 'ENZYME'},
        {'op': 'fill_to', 'obj': 'E', 'solvent': 'water', 'q': '1 mL'},
        {'op': 'fill_to', 'obj': ['P', "(2, slice(None))"], 'solvent': 'dmso', 'q': '200 uL'},
        {'op': 'dilute', 'obj': 'B', 'solute': 'nacl', 'conc': '0.1 M', 'solvent': 'dmso'},
    ]
    return a


def duplicate_list_sweep():
    a = []
    for g in DUP_SLICES:
        for q in ('6 uL', '2 mg', '15 umol', '0.0005 U'):
            a += [T('A', ['P', g], q), T(['P', g], 'E', q), T(['P', g], ['Q', "(1, 1)"], q), T(['Q', "'A:1'"], ['P', g], q)]
    return a


def mid_refusal_seed(seed_history_P):
    """P holds 20, 50, 60 / 90, 100, 130 uL (wells in row-major order); then: well B3 is drained to 5 uL, Q holds the enzyme in
    A1 only and is nearly full in B2, E is 50 uL below its capacity."""
    return seed_history_P + [T(['P', "(2, 3)"], 'A', '125 uL'), T('A', ['Q', "(1, 1)"], '30 uL'), T('B', ['Q', "(1, 2)"], '30 uL'),
                             T('A', ['Q', "(2, 2)"], '480 uL'), T('B', 'E', '1.95 mL')]


def mid_refusal_sweep():
    """Multi-well transfers that the FIRST well can serve and a LATER one cannot (a well overflows, a source well runs dry or
    holds no enzyme, the receiving container overflows at the third well): the call must be refused as a whole - and if a
    change lets it return, what left the sources is what the destinations received."""
    return [
        T('A', 'P', '390 uL'),                                       # every well can take it (B2: 490 uL): the positive control
        T('A', 'P', '405 uL'),                                       # A1 420 ok, A2 455 ok, A3 465 ok, B1 495 ok, B2 505 overflows
        T('A', ['P', "(slice(None), 2)"], '420 uL'),                 # A2 470 ok, B2 520 overflows
        T('A', ['P', "'B'"], '405 uL'),                              # B1 495 ok, B2 505 overflows
        T('A', ['Q', "(slice(None), 2)"], '25 uL'),                  # A2 55 ok, B2 505 overflows
        T('B', ['Q', "[(1, 1), (2, 2)]"], '25 uL'),                  # list form
        T(['P', "'B'"], 'A', '50 uL'),                               # B1 90, B2 100 ok, B3 holds 5 uL
        T('P', 'B', '15 uL'),                                        # ... the sixth well
        T(['P', "(slice(None), 3)"], ['Q', "(slice(None), 1)"], '30 uL'),      # A3 60 ok, B3 holds 5 uL
        T(['P', "'B'"], ['P', "'A'"], '40 uL'),                      # same plate, third pair fails
        T(['P', "(slice(None), 2)"], ['Q', "(slice(None), 2)"], '25 uL'),      # destination B2 overflows
        T(['Q', "1"], 'A', '0.001 U'),                               # A1 holds the enzyme, A2 does not
        T(['Q', "1"], ['P', "(1, slice(1, 2))"], '0.001 U'),
        T(['P', "'A'"], 'E', '19 uL'),                               # E: 1.969, 1.988, then 2.007 mL > 2 mL
        T(['P', "(1, slice(None))"], ['Q', "(2, 2)"], '8 uL'),       # many -> one: 488, 496, 504
    ]


def unit_spellings(value_base, base):
    """The same physical quantity spelled with every prefix. value_base in base units (float)."""
    out = []
    for p in PREFIXES:
        if base == 'U' and p:
            continue
        mult = {'n': 1e-9, 'u': 1e-6, 'µ': 1e-6, 'm': 1e-3, 'c': 1e-2, 'd': 1e-1, '': 1, 'da': 1e1, 'k': 1e3, 'M': 1e6}[p]
        v = value_base / mult
        out.append(f"{v:.12g} {p}{base}")
    return out


def geometry_sweep():
    """Every ordered pair (source form, destination form) x one quantity per unit."""
    # (a single source well written as a one-element list: what a list-addressed region hands out may be a copy)
    srcs = ['A', 'B', 'P'] + [['P', s] for s in P_SLICES] + [['P', "[('A', 2)]"]]
    dsts = ['E', 'B', 'Q'] + [['Q', s] for s in Q_SLICES] + [['P', s] for s in P_SLICES] + ['P']
    qs = ['7 uL', '3 mg', '20 umol', '0.001 U']
    acts = []
    for s, d in itertools.product(srcs, dsts):
        for q in qs:
            acts.append(T(s, d, q))
    acts.append(T('A', 'A', '1 mL'))
    acts.append(T('B', 'B', '0.3 g'))
    return acts


def unit_sweep():
    """All spellings x sizes x the pairing forms."""
    pair_forms = [('A', 'B'), ('A', ['Q', "(slice(None), 1)"]), (['P', "(2, slice(None))"], 'B'),
                  (['P', "(2, 3)"], ['Q', "1"]), (['P', "(2, slice(None))"], ['Q', "(1, 1)"]),
                  (['P', "(slice(None), slice(2, 3))"], 'Q')]
    # base quantities per unit: zero, tiny (a few storage resolutions), part, and for A->B larger parts
    # (2.54 nL, 1.23456 uL, 0.125 nmol, 1.2345 ng: not multiples of 10^-10 base units - a request is applied as written, not
    # rounded to a tenth of a nanolitre)
    sizes = {'L': [0.0, 2e-9, 2.54e-9, 1.23456e-6, 13e-6, 52e-6], 'g': [0.0, 3e-9, 1.2345e-9, 7e-6, 21e-6, 5e-3],
             'mol': [0.0, 4e-12, 1.25e-10, 9e-6, 300e-6], 'U': [0.0, 1e-7, 0.002, 0.004]}
    acts = []
    for (s, d) in pair_forms:
        for base, vals in sizes.items():
            for v in vals:
                for q in unit_spellings(v, base):
                    acts.append(T(s, d, q))
    return acts


# ---- twins: substances that share a name (e1.TWINS) ---------------------------------------------------------------------
W_TWIN = {
    'A': ('container', 'inf L', [('water', '10 mL'), ('nacl', '2 mmol'), ('dmso', '1 mL'), ('lipase', '2 U')]),
    'T': ('container', 'inf L', [('water', '3 mL'), ('nacl_h', '1 mmol'), ('dmso_x', '2 mL'), ('lipase_s', '5 mg')]),
    'E': ('container', '20 mL', []),
    'R': ('plate', '500 uL', 1, 2),
}


def twin_seed():
    return [T('A', ['R', "(1, 1)"], '50 uL'), T('T', ['R', "(1, 2)"], '60 uL')]


def twin_alphabet():
    """Every transfer brings a substance to a vessel that may already hold its twin."""
    a = []
    for s, d in (('A', 'T'), ('T', 'A'), ('A', 'E'), ('T', 'E'), ('E', 'A'), ('E', 'T')):
        for q in ('0.4 mL', '30 mg', '0.2 mmol', '0.1 U'):
            a.append(T(s, d, q))
    for s, d in (('A', 'R'), ('T', 'R'), ('R', 'E'), (['R', "(1, 1)"], ['R', "(1, 2)"]), (['R', "(1, 2)"], ['R', "(1, 1)"]),
                 (['R', "(1, 2)"], 'A')):
        for q in ('10 uL', '2 mg'):
            a.append(T(s, d, q))
    for what in ('nacl', 'nacl_h', 'dmso_x', 'lipase', 'lipase_s', 'SOLID'):
        a.append({'op': 'remove', 'obj': 'E', 'what': what})
    a.append({'op': 'remove', 'obj': 'R', 'what': 'dmso'})
    a.append({'op': 'remove', 'obj': 'T', 'what': 'nacl'})
    return a


# ---- requests for almost everything a source holds; trace amounts ---------------------------------------------------------
def near_whole_sweep():
    """'@f@unit' = the fraction f of what the (least filled) source well holds, in that unit (resolved by e1.concretise)."""
    a = []
    for s, d in (('A', 'E'), ('B', 'E'), ('G', 'E'), (['P', "(2, 3)"], 'E'), (['P', "(1, 1)"], ['Q', "(1, 1)"]),
                 (['P', "(2, slice(None))"], ['Q', "(1, 1)"]), ('B', ['Q', "(1, slice(None))"])):
        for unit in ('L', 'g', 'mol', 'U'):
            for f in ('0.9999', '0.999995', '0.99999999', '0.499999'):
                a.append(T(s, d, f"@{f if d != ['Q', '(1, slice(None))'] else str(float(f) / 2)}@{unit}"))
    return a


W_TRACE = {
    # a trace solute of a few femtomoles (tens of storage resolutions) next to ordinary amounts
    'A': ('container', 'inf L', [('water', '1 mL'), ('dmso', '0.5 mL'), ('nacl', '8e-15 mol'), ('lipase', '3e-8 U')]),
    'E': ('container', '20 mL', []),
    'R': ('plate', '500 uL', 1, 2),
    'Z': ('container', 'inf L', [('lipase', '5 U')]),          # nothing but enzyme: wells filled from it hold enzyme only
    'Y': ('container', 'inf L', [('nacl', '1 mmol')]),         # nothing but a dry solid
}


def trace_alphabet():
    a = [T('Z', 'R', '0.4 U'), T('R', 'E', '0.1 U'), T('R', 'E', '0.05 uL'), T(['R', "(1, 2)"], 'E', '2 ug'), T('Z', 'E', '1 U')]
    # draws from dry sources whose MASS is below the storage resolution of a gram (tens of picograms) while the amount itself
    # (moles, activity units) is thousands of resolutions: they are transfers like any other, nothing may be dropped
    a += [T('Z', 'E', '2e-7 U'), T('Z', 'R', '2e-7 U'), T('Y', 'E', '0.0003 nmol'), T('Y', 'R', '0.0003 nmol'), T('Y', 'E', '2e-11 g')]
    for s, d in (('A', 'E'), ('E', 'A'), ('A', 'R'), (['R', "(1, 1)"], 'E'), (['R', "(1, 1)"], ['R', "(1, 2)"])):
        for q in ('0.3 mL', '0.2 g', '20 uL', '3 mmol'):
            a.append(T(s, d, q))
    return a



# ---- the same number and prefix in another base unit ('5 uL', '5 ug', '5 umol'), through every pairing form, one after the other ------
def same_number_alphabet():
    """What a request means does not depend on the requests made before it: histories of two of these are explored."""
    a = []
    for s_, d_ in ((['P', "(slice(None), 1)"], ['Q', "(slice(None), 2)"]), ('A', 'B'), ('A', ['Q', "(1, slice(None))"]),
                   (['P', "(1, slice(None))"], 'E'), (['P', "(1, 1)"], ['Q', "(slice(None), 1)"])):
        for q in ('5 uL', '5 ug', '5 umol'):
            a.append(T(s_, d_, q))
    return a
