"""Plain-Python reproduction snippets for replay files: no explorer, no reference model, just pyplate calls.
(The snippet shows WHAT is executed; the verdict needs the oracle named in the 'expected' / 'what' fields.)"""
from . import e1


def _subs_code(vidx):
    lines = ["from pyplate import Substance, Container, Plate, Recipe"]
    for name, spec in e1.VALUATIONS[vidx % len(e1.VALUATIONS)].items():
        if spec[0] == 'liquid':
            lines.append(f"{name} = Substance.liquid({name!r}, {spec[1]}, {spec[2]})")
        elif spec[0] == 'solid':
            lines.append(f"{name} = Substance.solid({name!r}, {spec[1]})")
        else:
            lines.append(f"{name} = Substance.enzyme({name!r}, {spec[1]!r})")
    return lines


def _world_code(spec):
    lines = []
    for n, s in spec.items():
        if s[0] == 'container':
            cont = ', '.join(f"({x}, {q!r})" for x, q in s[2])
            lines.append(f"{n} = Container({n!r}, {s[1]!r}" + (f", [{cont}])" if cont else ")"))
        else:
            nm = s[4] if len(s) > 4 else n
            lines.append(f"{n} = Plate({nm!r}, {s[1]!r}, rows={s[2]}, columns={s[3]})")
    return lines


def _ref(r):
    if isinstance(r, str):
        return r
    out = f"{r[0]}[{r[1]}]"
    for sub in r[2:]:
        out += f"[{sub}]"
    return out


def _what(w):
    return {'SOLID': 'Substance.SOLID', 'LIQUID': 'Substance.LIQUID', 'ENZYME': 'Substance.ENZYME'}.get(w, w)


def act_code(a, is_plate):
    """One action as a statement that rebinds the names (as the explorer's commit does)."""
    op = a['op']
    if op == 'transfer':
        s, d = e1.refname(a['src']), e1.refname(a['dst'])
        fn = 'Plate.transfer' if is_plate(d) else 'Container.transfer'
        return f"{s}, {d} = {fn}({_ref(a['src'])}, {_ref(a['dst'])}, {a['q']!r})"
    if op == 'remove':
        return f"{e1.refname(a['obj'])} = {_ref(a['obj'])}.remove({_what(a['what'])})"
    if op == 'fill_to':
        return f"{e1.refname(a['obj'])} = {_ref(a['obj'])}.fill_to({a['solvent']}, {a['q']!r})"
    if op == 'dilute':
        nm = f", {a['new_name']!r}" if a.get('new_name') else ''
        return f"{a['obj']} = {a['obj']}.dilute({a['solute']}, {a['conc']!r}, {a['solvent']}{nm})"
    if op == 'add':
        return f"{a['obj']} = {a['obj']}._add({a['what']}, {a['q']!r})"
    if op == 'observe':
        return f"{_ref(a['obj'])}.get_substances()  # ... and the other observers"
    if op == 'new_container':
        cont = ', '.join(f"({x}, {q!r})" for x, q in a['contents'])
        return f"{a['name']} = Container({a['name']!r}, {a['max']!r}, [{cont}])"
    if op == 'create_solution':
        sol = '[' + ', '.join(a['solute']) + ']' if isinstance(a['solute'], list) else a['solute']
        kw = ', '.join(f"{k}={v!r}" for k, v in a['kw'].items())
        return f"{a['name']} = Container.create_solution({sol}, {a['solvent']}, {a['name']!r}, {kw})  # a tuple if the solvent is a container"
    if op == 'create_solution_from':
        return (f"{a['src']}, {a['name']} = Container.create_solution_from({a['src']}, {a['solute']}, {a['conc']!r}, {a['solvent']}, "
                f"{a['q']!r}, {a['name']!r})")
    return f"# {a}"


def recipe_code(program, spec):
    lines = ["recipe = Recipe()"]
    used = []
    for a in program:
        for k in ('src', 'dst', 'obj', 'solvent'):
            if k in a and e1.refname(a[k]) in spec and e1.refname(a[k]) not in used:
                used.append(e1.refname(a[k]))
    if used:
        lines.append(f"recipe.uses({', '.join(used)})")
    for a in program:
        op = a['op']
        if op == 'transfer':
            lines.append(f"recipe.transfer({_ref(a['src'])}, {_ref(a['dst'])}, {a['q']!r})")
        elif op == 'remove':
            lines.append(f"recipe.remove({_ref(a['obj'])}, {_what(a['what'])})")
        elif op == 'fill_to':
            lines.append(f"recipe.fill_to({_ref(a['obj'])}, {a['solvent']}, {a['q']!r})")
        elif op == 'dilute':
            nm = f", {a['new_name']!r}" if a.get('new_name') else ''
            lines.append(f"recipe.dilute({a['obj']}, {a['solute']}, {a['conc']!r}, {a['solvent']}{nm})")
        elif op == 'new_container':
            cont = ', '.join(f"({x}, {q!r})" for x, q in a['contents'])
            lines.append(f"{a['name']} = recipe.create_container({a['name']!r}, {a['max']!r}, [{cont}])")
        elif op == 'create_solution':
            kw = ', '.join(f"{k}={v!r}" for k, v in a['kw'].items())
            lines.append(f"{a['name']} = recipe.create_solution({a['solute']}, {a['solvent']}, {a['name']!r}, {kw})")
        elif op == 'create_solution_from':
            lines.append(f"{a['name']} = recipe.create_solution_from({a['src']}, {a['solute']}, {a['conc']!r}, {a['solvent']}, "
                         f"{a['q']!r}, {a['name']!r})")
    lines.append("results = recipe.bake()")
    return lines


def for_case(case):
    """Best-effort snippet for the case shapes used by the checks; None if the shape is not covered."""
    try:
        if not isinstance(case, dict):
            return None
        vidx = case.get('vidx', 0)
        if 'spec' in case and 'act' in case and isinstance(case.get('spec'), dict) and 'history' in case:
            spec = case['spec']
            plate = lambda n: spec.get(n, ('c',))[0] == 'plate'              # noqa
            lines = _subs_code(vidx) + _world_code(spec)
            for a in case.get('seed_history', []) + case['history']:
                lines.append(act_code(a, plate))
            if case.get('via_recipe'):
                lines += ["# the judged action, as a single recipe step:"] + recipe_code([case['act']], spec)
            else:
                lines += ["# the judged action:", act_code(case['act'], plate)]
            return '\n'.join(lines)
        if 'program' in case and isinstance(case['program'], list):
            from . import e2
            lines = _subs_code(vidx) + _world_code(e2.SPEC) + recipe_code(case['program'], e2.SPEC)
            q = case.get('query')
            if q:
                lines.append(f"# stage layout {case.get('layout')!r}; query: {q}")
            return '\n'.join(lines)
    except Exception:  # noqa
        return None
    return None
