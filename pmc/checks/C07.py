"""C07 — plate operations act well-by-well on exactly the addressed wells (differential against a per-well fold)."""
import copy
import itertools

from .. import alphabets, e1, env, monitors, par, report, selectors
from ..report import V

PID = 'C07'
T = alphabets.T
SHAPE_PAIRS = [((1, 1), (1, 3)), ((1, 3), (1, 3)), ((2, 2), (2, 2)), ((2, 3), (2, 2)), ((2, 3), (3, 2)), ((3, 2), (3, 2)),
               ((3, 1), (1, 3)), ((1, 1), (1, 1)), ((3, 1), (3, 1))]          # degenerate shapes: N x 1, 1 x N, 1 x 1
SHAPE_PAIRS_THOROUGH = SHAPE_PAIRS + [((3, 3), (3, 3)), ((3, 3), (2, 2)), ((2, 4), (4, 2))]


# earlier recipe steps of the 'recipe2' variant: every well of the plate changes before the judged step runs
PRELUDE = [T('C2', 'P', '7 uL'), T('C2', 'Q', '5 uL')]


def geometries(R, C):
    """Every slice geometry of an R x C plate as selector expressions (1-based ints, a few label spellings)."""
    rows, cols = selectors.default_rows(R), selectors.default_cols(C)
    g = []
    for r0 in range(1, R + 1):
        for r1 in range(r0, R + 1):
            for c0 in range(1, C + 1):
                for c1 in range(c0, C + 1):
                    if r0 == r1 and c0 == c1:
                        g.append(f"({r0}, {c0})" if (r0 + c0) % 2 else f"'{rows[r0 - 1]}:{cols[c0 - 1]}'")
                    else:
                        rs = f"slice({r0}, {r1})" if (r0, r1) != (1, R) else "slice(None)"
                        cs = f"slice({c0}, {c1})" if (c0, c1) != (1, C) else "slice(None)"
                        g.append(f"({rs}, {cs})")
    if C >= 3:
        g.append("(slice(None), slice(None, None, 2))")
    if R >= 3:
        g.append("(slice(None, None, 2), slice(None))")
    g.append(f"[(1, 1)]")
    if R * C >= 2:
        g.append(f"['{rows[-1]}:{cols[-1]}', (1, 1)]")
        g.append(f"[(1, {C}), ({R}, 1)]" if (1, C) != (R, 1) else f"[(1, 1), ({R}, {C})]")
    g.append("WHOLE")
    return g


def world_spec(shape_p, shape_q):
    return {'C': ('container', 'inf L', [('water', '10 mL'), ('nacl', '2 mmol'), ('lipase', '2 U')]),
            'C2': ('container', 'inf L', [('dmso', '5 mL'), ('na2so4', '1 mmol')]),
            'D': ('container', 'inf L', [('tea', '1 mL')]),
            'P': ('plate', '500 uL', shape_p[0], shape_p[1]), 'Q': ('plate', '500 uL', shape_q[0], shape_q[1]),
            # another version of plate P: a distinct object carrying the same name, with other contents
            'Pv': ('plate', '500 uL', shape_p[0], shape_p[1], 'P'),
            # a plate of which only the first well was ever filled: drawing from a never-filled well is refused
            'Pe': ('plate', '500 uL', shape_p[0], shape_p[1])}


def seed(shape_p, shape_q):
    h, k = [], 0
    for r in range(1, shape_p[0] + 1):
        for c in range(1, shape_p[1] + 1):
            k += 1
            h.append(T('C', ['P', f"({r}, {c})"], f"{k * 15} uL"))
            if k % 2 == 0:
                h.append(T('C2', ['P', f"({r}, {c})"], "10 uL"))
    k = 0
    for r in range(1, shape_p[0] + 1):
        for c in range(1, shape_p[1] + 1):
            k += 1
            h.append(T('C2', ['Pv', f"({r}, {c})"], f"{40 - 5 * k} uL"))
    h.append(T('C', ['Pe', "(1, 1)"], "30 uL"))
    k = 0
    for r in range(1, shape_q[0] + 1):
        for c in range(1, shape_q[1] + 1):
            k += 1
            h.append(T('C2', ['Q', f"({r}, {c})"], f"{k * 12} uL"))
            if k % 3 == 0:
                h.append(T('C', ['Q', f"({r}, {c})"], "20 uL"))
    return h


def ref_of(name, g):
    return name if g == 'WHOLE' else [name, g]


def cases(shape_p, shape_q):
    gp, gq = geometries(*shape_p), geometries(*shape_q)
    out = []
    for g in gp:
        for q in ('6 uL', '2 mg', '15 umol', '0.0005 U'):
            out.append(T('C', ref_of('P', g), q))
            out.append(T(ref_of('P', g), 'D', q))
        out.append(T('C', ref_of('P', g), '400 uL'))          # overflows the fuller wells
        out.append(T(ref_of('P', g), 'D', '40 uL'))           # more than the emptier wells hold
        for what in ('water', 'SOLID'):
            out.append({'op': 'remove', 'obj': ref_of('P', g), 'what': what})
        # '0.38 g' of tea read as pure solvent would be 523 uL (> the 500 uL wells); the fuller wells really end below 500 uL
        for q in ('200 uL', '0.1 g', '20 uL', '0.38 g'):
            out.append({'op': 'fill_to', 'obj': ref_of('P', g), 'solvent': 'tea', 'q': q})
    for g in gp:
        out.append(T(ref_of('Pe', g), 'D', '2 uL'))            # refused as soon as a never-filled well is addressed
        out.append(T(ref_of('Pe', g), ref_of('Q', gq[0]), '2 uL'))
    for g1, g2 in itertools.product(gp, gq):
        for q in ('3 uL', '1 mg'):
            out.append(T(ref_of('P', g1), ref_of('Q', g2), q))
    # sub-slices of slices (plate[a][b]): which wells they address is judged against 0-based numpy indexing of the parent
    parents = ["slice(None)", "(slice(None), slice(None))"]
    if shape_p[0] >= 2:
        parents.append("(slice(2, None), slice(None))")
    if shape_p[1] >= 3:
        parents += ["(slice(None), slice(2, 3))", "(slice(None), slice(None, None, 2))"]
    subsels = ["(slice(0, 1), slice(None))", "(slice(None), slice(1, None))", "(slice(1, None, 2), slice(None))",
               "(slice(None), slice(1, None, 2))", "(slice(None, None, 2), slice(0, 2))", "(slice(0, 1), slice(0, 1))",
               "(slice(1, 3, 2), slice(1, 4, 2))", "slice(1, None)", "(slice(1, None), slice(0, 3, 2))"]
    for pa in parents:
        for sb in subsels:
            out.append(T('C', ['P', pa, sb], '4 uL'))
            out.append(T(['P', pa, sb], 'D', '2 uL'))
            out.append({'op': 'remove', 'obj': ['P', pa, sb], 'what': 'water'})
            out.append({'op': 'fill_to', 'obj': ['P', pa, sb], 'solvent': 'tea', 'q': '300 uL'})
            # pairing decisions (1 -> N, N -> 1, element-wise) must use the sub-slice's own shape and size
            for g in gq[:3] + gq[-4:]:
                out.append(T(['P', pa, sb], ref_of('Q', g), '2 uL'))
                out.append(T(ref_of('Q', g), ['P', pa, sb], '2 uL'))
    # between two versions of one plate (distinct objects, same name): they are different plates
    for g1, g2 in [(a, b) for a in gp for b in gp][::max(1, len(gp) * len(gp) // 40)] + [(g, g) for g in gp]:
        out.append(T(ref_of('Pv', g1), ref_of('P', g2), '3 uL'))
    # same plate, disjoint or overlapping regions (a fixed family: the full product is in the C01 geometry sweep)
    for g1, g2 in itertools.product(gp[:6], gp[-6:]):
        out.append(T(ref_of('P', g1), ref_of('P', g2), '3 uL'))
    return out


# ---- the per-well fold ------------------------------------------------------------------------------------------------
def fold(pp, subs, world, act):
    """The same operation applied to free-standing Container copies of the addressed wells. Returns
    {address: Container} for everything addressed; raises what the per-well operation raises.
    'SHAPE' is returned when the property requires the shape combination to be rejected."""
    C = pp.Container
    get = lambda addr: copy.deepcopy(e1.well_of(world, addr))          # noqa
    if act['op'] == 'transfer':
        sreg, sshape = e1.region(world, act['src'])
        dreg, dshape = e1.region(world, act['dst'])
        if set(sreg) & set(dreg):
            return 'OVERLAP'
        src_list = isinstance(act['src'], list) and isinstance(selectors.ev(act['src'][1]), list)
        dst_list = isinstance(act['dst'], list) and isinstance(selectors.ev(act['dst'][1]), list)
        pairs = monitors.pairs_of(sreg, sshape, dreg, dshape)
        if pairs is None:
            if len(sreg) == len(dreg) and src_list != dst_list:
                return 'DONTCARE'            # a list-addressed region against a rectangular one of the same size
            return 'SHAPE'
        state = {}
        for s, d in pairs:
            a = state.get(s) or get(s)
            b = state.get(d) or get(d)
            a2, b2 = C.transfer(a, b, act['q'])
            state[s], state[d] = a2, b2
        return state
    reg, _ = e1.region(world, act['obj'])
    state = {}
    for addr in reg:
        c = get(addr)
        if act['op'] == 'remove':
            what = e1.CLASSES[act['what']] if act['what'] in e1.CLASSES else subs[act['what']]
            state[addr] = c.remove(what)
        else:
            state[addr] = c.fill_to(subs[act['solvent']], act['q'])
    return state


def same_container(a, b):
    for s in set(a.contents) | set(b.contents):
        x, y = a.contents.get(s, 0.0), b.contents.get(s, 0.0)
        if abs(x - y) > 1e-8 + 1e-10 * max(abs(x), abs(y)):
            return f"{s.name}: {x!r} vs {y!r}"
    if abs(a.volume - b.volume) > 1e-7:
        return f"volume {a.volume!r} vs {b.volume!r}"
    return None


_G = {}


def feat_of(world, act):
    def f(r):
        return monitors.form_of(world, r)
    if act['op'] == 'transfer':
        sreg, _ = e1.region(world, act['src'])
        dreg, _ = e1.region(world, act['dst'])
        pairing = '1->1' if len(sreg) == 1 and len(dreg) == 1 else '1->N' if len(sreg) == 1 else 'N->1' if len(dreg) == 1 else 'N->N'
        return f"transfer,src={f(act['src'])},dst={f(act['dst'])},pairing={pairing}"
    return f"{act['op']},obj={f(act['obj'])}"


def judge(pp, subs, world, act, via):
    """-> (violations, class)"""
    case = None
    for key in ('src', 'dst', 'obj'):
        if key in act and e1.region(world, act[key])[0] is None:
            return [], ('not-judged', 'sub-slice outside the judged forms')
    feat = feat_of(world, act) + f",via={via}"
    desc = {'direct': '', 'recipe': 'recipe step ', 'recipe2': 'second recipe step ', 'recipe3': 'second remove step '}[via] + \
        e1.act_str(act)
    called_on = world
    prelude = []
    if via == 'recipe3':
        # two consecutive remove steps with the same selector on different slices of one plate (the first on every third
        # column): the second is a step of its own, however alike the two look
        prelude = [{'op': 'remove', 'obj': ['P', "(slice(None), slice(None, None, 3))"], 'what': act['what']}]
        o = e1.apply(pp, subs, world, prelude[0])
        if not o['ok']:
            raise env.InternalError(f"prelude {e1.act_str(prelude[0])} failed: {o['exc']!r}")
        world = e1.commit(world, o)
        desc += f" (after {e1.act_str(prelude[0])})"
    if via == 'recipe2':
        # the step comes second in its recipe, after a step that changed the plates it addresses: it must act on the wells
        # as that earlier step left them (its operands are still taken from the declared objects, as a user writes it)
        names = {e1.refname(act[k]) for k in ('src', 'dst', 'obj') if k in act}
        prelude = [p for p in PRELUDE if e1.refname(p['dst']) in names]
        for p in prelude:
            o = e1.apply(pp, subs, world, p)
            if not o['ok']:
                raise env.InternalError(f"prelude {e1.act_str(p)} failed: {o['exc']!r}")
            world = e1.commit(world, o)
        desc += f" (after {' ; '.join(e1.act_str(p) for p in prelude)})"
    try:
        want = fold(pp, subs, world, act)
        fexc = None
    except Exception as e:  # noqa
        want, fexc = None, e
    env.clear_caches(pp)
    fp = e1.exact_world(called_on)
    repeat = None
    if via == 'direct':
        held = {}
        obs = e1.apply(pp, subs, world, act, held)
        # the same call once more through the very same slice objects: operations return new values, so it must do the same
        repeat = e1.apply(pp, subs, world, act, held)
    else:
        obs = e1.apply_via_recipe(pp, subs, called_on, act, prelude)
    oc = 'ok' if obs['ok'] else type(obs['exc']).__name__
    cls = (feat, 'fold-raises' if fexc is not None else want if isinstance(want, str) else 'fold-ok', oc)
    if e1.exact_world(called_on) != fp:
        return [V(f"plate-op | argument-mutated | {feat}", f"{desc} modified its arguments", case)], cls
    if repeat is not None:
        same = repeat['ok'] == obs['ok'] and (type(repeat['exc']) is type(obs['exc']))
        if same and obs['ok']:
            a, b = e1.commit(world, obs), e1.commit(world, repeat)
            same = all(same_container(x, y) is None for (_, x), (_, y) in zip(monitors.all_units(a), monitors.all_units(b)))
        if not same:
            return [V(f"plate-op | repeated-call-differs | {feat}",
                      f"{desc}: the same call made a second time through the same slice objects "
                      f"{'returns something else' if repeat['ok'] else 'raises ' + type(repeat['exc']).__name__} "
                      f"(the first {'returned' if obs['ok'] else 'raised ' + type(obs['exc']).__name__})", case)], cls
    if want == 'DONTCARE':
        return [], cls
    if want in ('SHAPE', 'OVERLAP'):
        if obs['ok']:
            return [V(f"plate-op | accepted-bad-shapes | {feat}",
                      f"{desc}: {'overlapping regions' if want == 'OVERLAP' else 'this combination of shapes'} must be rejected "
                      f"but the call returned", case, 'error', 'returned')], cls
        return [], cls
    if fexc is not None:
        if obs['ok']:
            return [V(f"plate-op | accepted-where-a-well-refuses | {feat}",
                      f"{desc} returned although the same operation on one of the addressed wells raises "
                      f"{type(fexc).__name__}: {fexc}", case, type(fexc).__name__, 'returned')], cls
        if isinstance(fexc, ValueError) and not isinstance(obs['exc'], ValueError):
            return [V(f"plate-op | wrong-exception | {feat}",
                      f"{desc} raised {oc}: {obs['exc']} where the per-well operation raises ValueError", case, 'ValueError', oc)], cls
        return [], cls
    if not obs['ok'] and via != 'direct' and act['op'] == 'fill_to' and isinstance(act['obj'], list):
        whole = e1.apply(pp, subs, world, dict(act, obj=e1.refname(act['obj'])))
        if not whole['ok'] and type(whole['exc']) is type(obs['exc']):
            return [V("plate-op | fill_to-on-slice-fills-every-well | via=recipe,outcome",
                      f"{desc} raised {oc} exactly as filling the WHOLE plate does ({whole['exc']}), although every addressed "
                      f"well can be filled", case, 'returns', oc)], cls
    if not obs['ok']:
        return [V(f"plate-op | refused-where-every-well-accepts | {feat},raises={oc}",
                  f"{desc} raised {oc}: {obs['exc']} although the operation succeeds on every addressed well", case,
                  'returns', oc)], cls
    post = e1.commit(world, obs)
    upre, upost = dict(monitors.all_units(world)), dict(monitors.all_units(post))
    for addr, c in upre.items():
        if addr[0] not in ('P', 'Q', 'C', 'D', 'C2', 'Pv', 'Pe'):
            continue
        if addr in want:
            d = same_container(upost[addr], want[addr])
            if d:
                kind = 'per-well-mismatch'
                if via != 'direct' and act['op'] == 'fill_to' and isinstance(act['obj'], list):
                    kind = 'per-well-mismatch'
                return [V(f"plate-op | {kind} | {feat}",
                          f"{desc}: {addr} differs from the same operation on a stand-alone container with that well's contents: "
                          f"{d}", case)], cls
        elif c.contents != upost[addr].contents or c.volume != upost[addr].volume:
            if via != 'direct' and act['op'] == 'fill_to' and isinstance(act['obj'], list):
                # is it exactly the known 'whole plate first' behaviour?
                whole = e1.apply(pp, subs, world, dict(act, obj=e1.refname(act['obj'])))
                if whole['ok']:
                    alt = e1.apply(pp, subs, e1.commit(world, whole), act)
                    if alt['ok'] and all(same_container(a, b) is None for (_, a), (_, b) in
                                         zip(monitors.all_units(e1.commit(world, alt)), monitors.all_units(post))):
                        return [V("plate-op | fill_to-on-slice-fills-every-well | via=recipe",
                                  f"{desc}: every well of the plate is filled, not only the slice ({addr} changed)", case)], cls
            return [V(f"plate-op | frame-changed | {feat}",
                      f"{desc}: {addr} is not addressed but changed from {e1.contents_key(c, 9)} to "
                      f"{e1.contents_key(upost[addr], 9)}", case)], cls
    return [], cls


def _worker(item):
    pp, vidx = _G['pp'], _G['vidx']
    pi, lo, hi = item
    sp, sq = SHAPE_PAIRS[pi]
    spec, hist = world_spec(sp, sq), seed(sp, sq)
    acts = _G['cases'][pi]
    subs, world = e1.build(pp, vidx, spec, hist)
    fp = e1.exact_world(world)
    viols, classes = [], set()
    for ai in range(lo, hi):
        act = acts[ai]
        for via in ('direct', 'recipe', 'recipe2', 'recipe3'):
            if via == 'recipe3' and not (act['op'] == 'remove' and e1.refname(act['obj']) == 'P' and sp[1] >= 3):
                continue
            if via != 'direct' and act['op'] == 'transfer' and 'Pv' in (e1.refname(act['src']), e1.refname(act['dst'])):
                continue          # a recipe rightly refuses two objects carrying the same name (C16)
            vs, cls = judge(pp, subs, world, act, via)
            for v in vs:
                v['case'] = {'vidx': vidx, 'pair': pi, 'act': act, 'via': via}
            viols.extend(vs)
            classes.add(cls)
            if e1.exact_world(world) != fp:
                subs, world = e1.build(pp, vidx, spec, hist)
                fp = e1.exact_world(world)
    return viols, classes, 4 * (hi - lo)


def run(col):
    pp = env.load()
    col.rule = ("plate shape pairs (1x1,1x3) (1x3,1x3) (2x2,2x2) (2x3,2x2) (2x3,3x2) (3x2,3x2) with non-uniform seeded wells x every "
                "slice geometry (all single wells, all contiguous rectangles incl. rows/columns/whole, stepped, lists, the Plate "
                "object) x {container->slice, slice->container in L, g, mol, U and beyond capacity/content, remove x 2, fill_to x "
                "3, slice->slice over all geometry pairs x 2 units, a same-plate family} x {direct, only recipe step, second recipe step "
                "after a step that changed the addressed plates}; oracle: the "
                "same operation folded over free-standing copies of the addressed wells, frame bit-identical, refusal iff a "
                "well refuses, shape rules. Non-trivial = distinct (operation, forms, pairing, via, fold outcome, outcome)")
    col.assumptions += ["a list-addressed region against a rectangular one of the same size is don't-care",
                        "Container-level correctness of the folded operation is judged by C01/C02/C03/C11/C17, not here"]
    vals = [col.seed % 3] if col.tier == 'quick' else [0, 1, 2]
    global SHAPE_PAIRS
    if col.tier == 'thorough':
        SHAPE_PAIRS = SHAPE_PAIRS_THOROUGH
    pairs = list(range(len(SHAPE_PAIRS)))
    for v in vals:
        allc = {pi: cases(*SHAPE_PAIRS[pi]) for pi in pairs}
        _G.update(pp=pp, vidx=v, cases=allc)
        items = []
        for pi in pairs:
            n = len(allc[pi])
            step = max(1, n // (env.nprocs() * 2))
            items += [(pi, lo, min(n, lo + step)) for lo in range(0, n, step)]
        res = par.pmap(_worker, items, chunk=1)
        classes = set()
        total = 0
        for viols, cl, n in res:
            col.add(viols)
            classes |= cl
            total += n
        col.count('transitions', total)
        col.count('traces', total)
        col.count('evaluations', total)
        col.count('states', len(classes))
        col.note_nontrivial({report.digest((v, c)) for c in classes})
        col.cov.setdefault('valuations', []).append({'valuation': v, 'shape_pairs': [SHAPE_PAIRS[p] for p in pairs],
                                                     'cases': total, 'classes': len(classes)})
        col.sample({'case': e1.act_str(allc[pairs[-1]][len(allc[pairs[-1]]) // 2]), 'shapes': SHAPE_PAIRS[pairs[-1]]})


def replay(case):
    pp = env.load()
    sp, sq = SHAPE_PAIRS_THOROUGH[case['pair']]
    subs, world = e1.build(pp, case['vidx'], world_spec(sp, sq), seed(sp, sq))
    vs, _ = judge(pp, subs, world, case['act'], case['via'])
    return vs
