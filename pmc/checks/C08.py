"""C08 — baking a recipe equals performing its steps eagerly, in order (inductive form over all programs, E2)."""
from .. import e1, e2, env, par, report
from ..report import V

PID = 'C08'
_G = {}


def outcome_class(exc):
    if exc is None:
        return 'ok'
    return 'ValueError' if isinstance(exc, ValueError) else type(exc).__name__


def whole_plate_first(pp, subs, w, act):
    """Model of the one known defect (DESIGN 5, row 8): a recipe fill_to on a slice first fills the WHOLE plate.
    Returns the obs of 'fill the whole plate, then the slice' performed eagerly."""
    whole = dict(act, obj=e1.refname(act['obj']))
    o1 = e1.apply(pp, subs, w, whole)
    if not o1['ok']:
        return o1
    return e1.apply(pp, subs, e1.commit(w, o1), act)


def judge_step(pp, vidx, voc, prog_idx, ai, parent_results):
    """bake(p.s) against eager_apply(bake(p), s). Returns (violations, baked ok?, class)."""
    program = [voc[i] for i in prog_idx]
    act = voc[ai]
    full = program + [act]
    case = {'vidx': vidx, 'program': full}
    earlier = {n for a in program for n in e2.mentions(a) + ([e2.creates(a)] if e2.creates(a) else [])}
    feat = f"step={e2.step_kind(act)}"
    text = ' ; '.join(e1.act_str(a) for a in full)
    b = e2.bake(pp, vidx, full)
    vs = []
    if b['pre']:
        vs.append(V(f"Recipe | effect-before-bake | {feat}", f"program [{text}]: {b['pre']}", case))
    if b['exc'] is not None and b['phase'] != 'bake':
        # refused while adding the step: a lifecycle matter (C16) unless the eager operation is fine
        cls = ('refused-at-add', outcome_class(b['exc']))
        subs, w = e2.world_after(pp, vidx, parent_results, e2.outside_mentioned(full))
        env.clear_caches(pp)
        if e1.apply(pp, subs, w, act)['ok']:
            vs.append(V(f"Recipe | step-refused-but-eager-succeeds | {feat},raises={cls[1]}",
                        f"program [{text}]: the last step is refused when it is added to the recipe ({cls[1]}: {b['exc']}) although "
                        f"the same operation succeeds on the baked prefix", case, 'accepted', cls[1]))
        return vs, False, cls
    subs, w = e2.world_after(pp, vidx, parent_results, e2.outside_mentioned(full))
    env.clear_caches(pp)
    obs = e1.apply(pp, subs, w, act)
    eo, bo = outcome_class(obs['exc']), outcome_class(b['exc'])
    cls = (e2.step_kind(act), eo, bo)
    slice_fill = act['op'] == 'fill_to' and not isinstance(act['obj'], str)
    if ((eo == 'ok') != (bo == 'ok') or (eo == 'ValueError' and bo != 'ValueError')) and slice_fill and \
            outcome_class(whole_plate_first(pp, subs, w, act)['exc']) == bo:
        vs.append(V("bake | fill_to-on-slice-fills-every-well | outcome",
                    f"program [{text}]: bake() {'returns' if bo == 'ok' else 'raises ' + bo} exactly as 'fill the whole plate, "
                    f"then the slice' does, while filling only the slice {'returns' if eo == 'ok' else 'raises ' + eo}", case, eo, bo))
        return vs, bo == 'ok', cls
    if (eo == 'ok') != (bo == 'ok') or (eo == 'ValueError' and bo != 'ValueError'):
        vs.append(V(f"bake | outcome-differs-from-eager | {feat},eager={eo},bake={bo}",
                    f"program [{text}]: the last step performed eagerly on the baked prefix "
                    f"{'returns' if eo == 'ok' else 'raises ' + eo} but bake() {'returns' if bo == 'ok' else 'raises ' + bo}"
                    f"{': ' + str(b['exc']) if b['exc'] is not None else ''}", case, eo, bo))
        return vs, bo == 'ok', cls
    if bo != 'ok':
        return vs, False, cls
    want = e1.commit(w, obs)
    names = e2.expected_names(full)
    got = b['results']
    if set(got) != names:
        vs.append(V(f"bake | wrong-keys | {feat}", f"program [{text}]: bake returned {sorted(got)}, declared and created names "
                    f"are {sorted(names)}", case, sorted(names), sorted(got)))
        return vs, True, cls
    for n in sorted(names):
        d = e2.same_object(pp, got[n], want[n])
        if d and slice_fill:
            alt = whole_plate_first(pp, subs, w, act)
            if alt['ok'] and all(e2.same_object(pp, got[m], e1.commit(w, alt)[m]) is None for m in names):
                vs.append(V("bake | fill_to-on-slice-fills-every-well | contents",
                            f"program [{text}]: after bake every well of '{n}' is filled, not only the slice ({d})", case))
                break
        if d:
            vs.append(V(f"bake | diverges-from-eager | {feat}",
                        f"program [{text}]: after bake '{n}' differs from applying the last step eagerly to the baked prefix: {d}",
                        case))
            break
    # the same program with a premature bake() after every step that leaves a declared object unused: each is refused, and
    # the final bake must return what it returns without them
    if any(set(e2.outside_mentioned(full)) - set(e2.outside_mentioned(full[:i + 1])) for i in range(len(full) - 1)) and not vs:
        b2 = e2.bake(pp, vidx, full, premature=True)
        if b2.get('premature'):
            pass        # accepting it is a lifecycle matter (C16); the recipe is locked afterwards, nothing to compare
        elif not b2['ok']:
            vs.append(V(f"bake | refused-bake-leaves-traces | {feat},outcome",
                        f"program [{text}] with a (refused) bake() after each step that leaves a declared object unused: the final "
                        f"bake raises {outcome_class(b2['exc'])}: {b2['exc']}", case, 'returns', outcome_class(b2['exc'])))
        else:
            for n in sorted(names):
                d = e2.same_object(pp, b2['results'].get(n), got[n]) if n in b2['results'] else 'missing'
                if d:
                    vs.append(V(f"bake | refused-bake-leaves-traces | {feat}",
                                f"program [{text}] with a (refused) bake() after each step that leaves a declared object unused: "
                                f"'{n}' differs from the result without those calls: {d}", case))
                    break
    # the same program with the outside objects declared in other ways (one uses() call mixing an iterable and plain arguments,
    # a generator, chained calls): how objects were declared must not matter
    if len(e2.outside_mentioned(full)) >= 2 and not vs:
        for declare in ('list-then-args', 'args-then-generator', 'chained'):
            b3 = e2.bake(pp, vidx, full, declare=declare)
            d = None
            if not b3['ok']:
                d = f"bake raises {outcome_class(b3['exc'])}: {b3['exc']} (at {b3['phase']})"
            else:
                for n in sorted(names):
                    d = 'missing' if n not in b3['results'] else e2.same_object(pp, b3['results'][n], got[n])
                    if d:
                        d = f"'{n}': {d}"
                        break
            if d:
                vs.append(V(f"bake | depends-on-how-objects-were-declared | {feat},declare={declare}",
                            f"program [{text}] with the outside objects declared as '{declare}': {d}", case))
                break
    return vs, True, cls


def _expand(prog_idx):
    pp, vidx, voc = _G['pp'], _G['vidx'], _G['voc']
    program = [voc[i] for i in prog_idx]
    parent = e2.bake(pp, vidx, program)
    if not parent['ok']:
        raise env.InternalError(f"a pruned (failing) prefix was expanded: {prog_idx}: {parent['exc']!r}")
    out, viols = [], []
    for ai, act in enumerate(voc):
        if not e2.enabled(program, act):
            continue
        vs, ok, cls = judge_step(pp, vidx, voc, prog_idx, ai, parent['results'])
        viols.extend(vs)
        out.append((ai, ok, cls))
    return out, viols


def explore(col, pp, vidx, depth):
    voc = e2.vocabulary()
    _G.update(pp=pp, vidx=vidx, voc=voc)
    frontier = [()]
    programs, classes, failing = 0, set(), 0
    for level in range(depth):
        res = par.pmap(_expand, frontier, chunk=1 if len(frontier) < 2000 else None)
        nxt = []
        for p, (out, viols) in zip(frontier, res):
            col.add(viols)
            for ai, ok, cls in out:
                programs += 1
                classes.add(cls)
                if ok:
                    nxt.append(p + (ai,))
                else:
                    failing += 1
        if level == min(1, depth - 1) and frontier:
            col.sample({'program': [e1.act_str(voc[i]) for i in frontier[len(frontier) // 2]] or ['<empty>'], 'valuation': vidx})
        frontier = nxt
    col.count('states', programs - failing + 1)
    col.count('transitions', programs)
    col.count('traces', programs)
    col.count('evaluations', programs)
    col.note_nontrivial({report.digest((vidx, c)) for c in classes})
    col.cov.setdefault('explorations', []).append({'valuation': vidx, 'vocabulary': len(voc), 'depth': depth,
                                                   'programs_baked_and_compared': programs, 'failing_programs_pruned': failing,
                                                   'distinct_step_outcome_classes': len(classes)})


def _spell(i):
    vs, _, cls = judge_step(_G['pp'], _G['vidx'], _G['sp'], (), i, _G['empty'])
    return vs, cls


def spellings(col, pp, vidx):
    """One-step programs over every spelling of a quantity (prefix x unit, incl. sizes that are no multiple of 10^-10 base units):
    the step performs the request as it was written when it was recorded."""
    from .. import alphabets
    sizes = {'L': [2.54e-9, 12.25e-9, 1.23456e-6, 52e-6], 'g': [1.2345e-9, 7e-6, 5e-3], 'mol': [1.25e-10, 4e-11, 9e-6],
             'U': [1e-7, 0.002]}
    acts = [e2.T(s, d, q) for (s, d) in (('A', 'B'), ('A', ['P', "(1, slice(None))"]))
            for base, vals in sizes.items() for v in vals for q in alphabets.unit_spellings(v, base)]
    _G.update(pp=pp, vidx=vidx, sp=acts, empty=e2.bake(pp, vidx, [])['results'])
    res = par.pmap(_spell, list(range(len(acts))))
    classes = set()
    for vs, cls in res:
        col.add(vs)
        classes.add(cls)
    for k in ('transitions', 'traces', 'evaluations'):
        col.count(k, len(acts))
    col.note_nontrivial({report.digest((vidx, 'spelling', c)) for c in classes})
    col.cov.setdefault('spellings', []).append({'valuation': vidx, 'one_step_programs': len(acts), 'classes': len(classes)})


def run(col):
    pp = env.load()
    col.rule = ("every program of <= 3 (quick) / 4 (thorough) steps over a 28-action recipe vocabulary (transfers container / "
                "plate / slice in volume, mass, moles; remove; dilute; fill_to; create_container; create_solution with pure, "
                "declared-container and recipe-created-container solvent; create_solution_from; one infeasible step), each "
                "baked in a fresh Recipe declaring exactly what it mentions; oracle in inductive form bake(p.s) == "
                "eager_apply(bake(p), s) incl. outcome classes and key set, + 'no effect before bake'. "
                "Non-trivial = distinct (step kind, eager outcome, bake outcome) classes")
    col.assumptions += ["extensions of a failing prefix are pruned", "objects are compared to 1e-6 storage units / 1e-9 relative"]
    vals = [col.seed % 3] if col.tier == 'quick' else [0, 1, 2]
    for v in vals:
        explore(col, pp, v, 3 if col.tier == 'quick' else 4)
        spellings(col, pp, v)


def replay(case):
    pp = env.load()
    voc = case['program']
    idx = tuple(range(len(voc) - 1))
    parent = e2.bake(pp, case['vidx'], voc[:-1])
    if not parent['ok']:
        return []
    vs, _, _ = judge_step(pp, case['vidx'], voc, idx, len(voc) - 1, parent['results'])
    return vs
