"""C04 — values are immutable: no operation modifies its arguments, also when it raises; results never alias."""
from .. import alphabets, e1, env, monitors, par, report, selectors
from ..report import V
from . import C03

PID = 'C04'
MONS = [monitors.m_immutable]
T = alphabets.T


# ---- (b) a slice object held across two calls ------------------------------------------------------------------
SLICE_OPS = ['remove', 'fill_to', 'fill_to_fail', 'transfer_in', 'transfer_out', 'transfer_in_fail', 'get_volumes',
             'to_other_plate', 'from_other_plate', 'to_many']


def _slice_call(pp, subs, world, sl, op):
    if op == 'remove':
        return sl.remove(subs['water'])
    if op == 'fill_to':
        return sl.fill_to(subs['dmso'], '300 uL')
    if op == 'fill_to_fail':
        return sl.fill_to(subs['dmso'], '900 uL')          # beyond the well capacity: raises part-way
    if op == 'transfer_in':
        return pp.Plate.transfer(world['A'], sl, '5 uL')
    if op == 'transfer_in_fail':
        return pp.Plate.transfer(world['A'], sl, '450 uL')  # overflows at some well
    if op == 'transfer_out':
        return pp.Container.transfer(sl, world['B'], '2 uL')
    if op == 'to_other_plate':
        return pp.Plate.transfer(sl, world['Q'][1, 1], '2 uL')       # the held slice as the SOURCE of a plate-to-plate transfer
    if op == 'from_other_plate':
        return pp.Plate.transfer(world['Q'][2, 2], sl, '1 uL')       # ... and as its destination (Q is loaded by the seed)
    if op == 'to_many':
        return pp.Plate.transfer(sl, world['Q'][1], '2 uL')          # the held slice as the ONE side of a one-to-many transfer
    if op == 'get_volumes':
        # looking at a slice (its cached geometry, and the texts that name it)
        return (sl.get_volumes(), sl.shape, sl.size, repr(sl), str(sl), sl.name)
    raise env.InternalError(op)


def _result_fp(r):
    if isinstance(r, tuple):
        return tuple(_result_fp(x) for x in r)
    if e1.is_plate(r) or hasattr(r, 'contents'):
        return e1.canon_obj(r, 9)
    return repr(r)


_G = {}


def _hs_seed():
    return e1.seed_history_P() + [alphabets.T('A', 'Q', '30 uL')]


def _held_slice_case(item):
    sel, op1, op2 = item
    pp, vidx = _G['pp'], _G['vidx']
    subs, world = e1.build(pp, vidx, e1.W_DEFAULT, _hs_seed())
    plate = world['P']
    sl = plate[selectors.ev(sel)]
    fp_plate, fp_world, fp_slices = e1.exact_obj(plate), e1.exact_world(world), repr(sl.slices)
    case = {'vidx': vidx, 'held_slice': [sel, op1, op2]}
    vs = []
    outcomes = []
    try:
        _slice_call(pp, subs, world, sl, op1)
        outcomes.append('ok')
    except Exception as e:  # noqa
        outcomes.append(type(e).__name__)
    if sl.plate is not plate or repr(sl.slices) != fp_slices:
        vs.append(V(f"PlateSlicer.{op1.split('_fail')[0]} | argument-mutated | slice-object,outcome={'raised' if outcomes[0] != 'ok' else 'returned'}",
                    f"s = P[{sel}]; {op1} through s changed the slice object itself (the plate it points at, or its list of wells)", case))
    if e1.exact_world(world) != fp_world:
        vs.append(V(f"PlateSlicer.{op1.split('_fail')[0]} | argument-mutated | plate,outcome={'raised' if outcomes[0] != 'ok' else 'returned'}",
                    f"s = P[{sel}]; {op1} through s modified the plate (or another argument) in place", case))
    if vs:
        return vs, tuple(outcomes)
    # second use of the same slice object must behave like a fresh slice of the original plate
    try:
        got = _result_fp(_slice_call(pp, subs, world, sl, op2))
    except Exception as e:  # noqa
        got = 'raises ' + type(e).__name__
    subs2, world2 = e1.build(pp, vidx, e1.W_DEFAULT, _hs_seed())
    try:
        want = _result_fp(_slice_call(pp, subs2, world2, world2['P'][selectors.ev(sel)], op2))
    except Exception as e:  # noqa
        want = 'raises ' + type(e).__name__
    outcomes.append('same' if got == want else 'differs')
    if e1.exact_world(world) != fp_world:
        vs.append(V(f"PlateSlicer.{op2.split('_fail')[0]} | argument-mutated | plate,second-use-after={op1.split('_fail')[0]}",
                    f"s = P[{sel}]; after {op1} through s, {op2} through the same s modified the plate (or another argument) in "
                    f"place", case))
    elif got != want:
        vs.append(V(f"PlateSlicer.{op2.split('_fail')[0]} | earlier-result-mutated | reused-slice-after={op1.split('_fail')[0]}",
                    f"s = P[{sel}]; after {op1} through s, {op2} through the same s differs from {op2} on a fresh slice",
                    case, want, got))
    return vs, tuple(outcomes)


def held_slices(col, pp, vidx):
    _G.update(pp=pp, vidx=vidx)
    items = [(sel, a, b) for sel in alphabets.P_SLICES + ["slice(None)"] for a in SLICE_OPS for b in SLICE_OPS]
    res = par.pmap(_held_slice_case, items)
    classes = set()
    for (sel, a, b), (vs, oc) in zip(items, res):
        col.add(vs)
        classes.add((a, b, oc))
    col.count('transitions', 2 * len(items))
    col.count('traces', len(items))
    col.count('evaluations', len(items))
    col.note_nontrivial({report.digest(('HS', vidx, c)) for c in classes})
    col.cov.setdefault('held_slices', []).append({'valuation': vidx, 'cases': len(items), 'classes': len(classes)})
    col.sample({'held_slice_case': items[len(items) // 3]})


# ---- (c) originals handed to a recipe ----------------------------------------------------------------------------
def _recipe_case(ai):
    pp, vidx = _G['pp'], _G['vidx']
    act = _G['alphabet'][ai]
    subs, world = e1.build(pp, vidx, e1.W_DEFAULT, e1.seed_history_P())
    fp = e1.exact_world(world)
    fps = tuple(e1.exact_obj(s) for s in subs.values())
    case = {'vidx': vidx, 'recipe_act': act}
    try:
        obs = e1.apply_via_recipe(pp, subs, world, act)
    except env.InternalError:
        return [], None
    outcome = 'returned' if obs['ok'] else 'raised'
    vs = []
    if e1.exact_world(world) != fp or tuple(e1.exact_obj(s) for s in subs.values()) != fps or \
            any(e1.exact_obj(o) != f0 for f0, o in obs.get('passed', ())):
        vs.append(V(f"Recipe | argument-mutated | op={act['op']},outcome={outcome}",
                    f"declaring, adding the step {e1.act_str(act)} and baking ({outcome}) modified an object handed to the "
                    f"recipe", case))
    if obs['ok']:
        # a second recipe built from the first one's results must not alter them
        res = obs['new']
        fp2 = {n: e1.exact_obj(o) for n, o in res.items()}
        w2 = dict(world)
        w2.update(res)
        try:
            e1.apply_via_recipe(pp, subs, w2, act)
        except env.InternalError:
            pass
        if {n: e1.exact_obj(o) for n, o in res.items()} != fp2:
            vs.append(V(f"Recipe | earlier-result-mutated | op={act['op']}",
                        f"a second recipe performing {e1.act_str(act)} on the first recipe's results altered them", case))
    return vs, (act['op'], outcome)


def recipes(col, pp, vidx):
    alphabet = [a for a in C03.full_alphabet() if a['op'] != 'add']
    # a list-addressed slice whose wells are not written in plate order, on either side (bake names it in the step's text)
    unsorted = ['P', "[('B', 2), ('A', 1)]"]
    alphabet += [alphabets.T('A', unsorted, '4 uL'), alphabets.T(unsorted, 'E', '4 uL'), alphabets.T(unsorted, ['Q', "['B:1', 'A:2']"], '4 uL'),
                 {'op': 'remove', 'obj': unsorted, 'what': 'water'}, {'op': 'fill_to', 'obj': unsorted, 'solvent': 'dmso', 'q': '300 uL'}]
    _G.update(pp=pp, vidx=vidx, alphabet=alphabet)
    res = par.pmap(_recipe_case, list(range(len(alphabet))))
    classes = set()
    for vs, oc in res:
        col.add(vs)
        if oc:
            classes.add(oc)
    col.count('transitions', 2 * len(alphabet))
    col.count('traces', len(alphabet))
    col.count('evaluations', len(alphabet))
    col.note_nontrivial({report.digest(('R', vidx, c)) for c in classes})
    col.cov.setdefault('recipe_cases', []).append({'valuation': vidx, 'cases': len(alphabet), 'classes': len(classes)})


# ---- (d) a recipe is a holder of values too: a refused bake leaves it exactly as it was -------------------------------------
def _recipe_fp(recipe):
    return (tuple(sorted((k, e1.exact_obj(v)) for k, v in recipe.results.items())), tuple(sorted(map(str, recipe.used))),
            tuple(sorted((k, (v.start, v.stop)) for k, v in recipe.stages.items())), recipe.current_stage, bool(recipe.locked),
            tuple((s.operator, len(s.frm), len(s.to),
                   tuple(e1.exact_obj(x) if x is not None and not isinstance(x, str) else x for x in list(s.frm) + list(s.to)),
                   tuple(sorted((x.name, repr(a)) for x, a in s.trash.items())), tuple(sorted(map(str, s.objects_used))),
                   tuple(sorted(x.name for x in s.substances_used)), s.instructions) for s in recipe.steps))


def _refused_bake_case(prog_idx):
    from .. import e2
    pp, vidx, voc = _G['pp'], _G['vidx'], _G['voc']
    program = [voc[i] for i in prog_idx]
    out_names = e2.outside_mentioned(program)
    extra = next((n for n in ('B', 'P', 'A') if n not in out_names), None)
    if extra is None:
        return [], None
    env.clear_caches(pp)
    subs, world = e2.pristine(pp, vidx)
    recipe, handles = pp.Recipe(), {}
    case = {'vidx': vidx, 'refused_bake_program': program}
    text = ' ; '.join(e1.act_str(a) for a in program)
    try:
        for n in out_names + [extra]:
            recipe.uses(world[n])
        recipe.start_stage('s')
        for act in program:
            e2.add_step(pp, subs, world, handles, recipe, act)
    except Exception:  # noqa: a step refused when added - not this pass
        return [], ('not-built',)
    fp_world, fp = e1.exact_world(world), _recipe_fp(recipe)
    # declaring and step-adding calls that the recipe refuses (a name that is taken, an undeclared object, a stage that is
    # open / not open): whatever they raise, the recipe and the objects are left exactly as they were
    nacl, water = subs['nacl'], subs['water']
    for label, call in (('create_container', lambda: recipe.create_container(extra, '5 mL')),
                        ('create_container', lambda: recipe.create_container(extra, '5 mL', [(water, '1 mL')])),
                        ('create_solution', lambda: recipe.create_solution(nacl, water, name=extra, concentration='0.5 M',
                                                                           total_quantity='2 mL')),
                        ('uses', lambda: recipe.uses(pp.Container(extra, '1 mL'))),
                        ('transfer', lambda: recipe.transfer(pp.Container('nobody', '1 mL', [(water, '0.5 mL')]), world[extra], '1 uL')),
                        ('remove', lambda: recipe.remove(pp.Container('nobody', '1 mL'), water)),
                        ('start_stage', lambda: recipe.start_stage('s')), ('end_stage', lambda: recipe.end_stage('zz'))):
        try:
            call()
            return [], ('accepted-refusable', label)         # accepting it is C16's matter; the recipe is not comparable any more
        except Exception:  # noqa
            pass
        after = _recipe_fp(recipe)
        if after != fp or e1.exact_world(world) != fp_world:
            part = [name for name, a, b in zip(('results', 'used', 'stages', 'open stage', 'locked', 'step records'), fp, after) if a != b]
            return [V(f"Recipe.{label} | recipe-state-changed | refused-call,changed={'+'.join(part) or 'objects'}",
                      f"[{text}], then a {label} call that the recipe refuses (name '{extra}' is taken / object not declared / stage "
                      f"open): the refused call left the recipe changed ({', '.join(part) or 'an object handed to uses()'})", case)], \
                ('refused-call-changed', label)
    try:
        recipe.bake()
        return [], ('baked',)           # accepted although an object is unused: C16's matter
    except ValueError:
        pass
    except Exception as e:  # noqa
        return [V(f"Recipe.bake | wrong-exception | refused-bake,raises={type(e).__name__}",
                  f"[{text}] + an unused declared object: bake() raised {type(e).__name__}: {e}", case)], ('crash',)
    vs = []
    if e1.exact_world(world) != fp_world:
        vs.append(V("Recipe.bake | argument-mutated | refused-bake,objects-handed-to-uses",
                    f"[{text}] + an unused declared object: the refused bake() modified an object handed to uses()", case))
    after = _recipe_fp(recipe)
    if after != fp:
        part = [name for name, a, b in zip(('results', 'used', 'stages', 'open stage', 'locked', 'step records'), fp, after) if a != b]
        vs.append(V(f"Recipe.bake | recipe-state-changed | refused-bake,changed={'+'.join(part)}",
                    f"[{text}] + an unused declared object '{extra}': bake() raised ValueError and left the recipe changed "
                    f"({', '.join(part)})", case))
    return vs, ('refused', len(program))


def refused_bakes(col, pp, vidx, depth):
    from .. import e2
    voc = e2.vocabulary()
    _G.update(pp=pp, vidx=vidx, voc=voc)
    _, programs, _ = e2.successful_programs(pp, vidx, depth, voc)
    res = par.pmap(_refused_bake_case, programs)
    classes = set()
    n = 0
    for vs, oc in res:
        col.add(vs)
        if oc:
            classes.add(oc)
            n += oc[0] == 'refused'
    col.count('transitions', len(programs))
    col.count('traces', n)
    col.count('evaluations', n)
    col.note_nontrivial({report.digest(('RB', vidx, c)) for c in classes})
    col.cov.setdefault('refused_bakes', []).append({'valuation': vidx, 'programs': len(programs), 'refused_bakes_fingerprinted': n})


def run(col):
    pp = env.load()
    col.rule = ("exact structural fingerprints (name, contents, volume, capacity, instructions, every well, labels; slices: "
                "plate identity + resolved slices; substances: all attributes) of every argument before and after each "
                "call, returned or raised, and of every object produced earlier on the history, along every history of the "
                "full operation menu incl. failing calls (depth 2 quick / 3 thorough) and the geometry sweep; every "
                "(slice geometry x op x op) with one slice object held across both calls; every action as a recipe "
                "(declare, add, bake, second recipe on the results). Non-trivial = distinct observation classes")
    col.assumptions += ["instruction text is part of the fingerprint; numpy arrays are compared element-wise via the wells"]
    vals = [col.seed % 3] if col.tier == 'quick' else [0, 1, 2]
    for v in vals:
        e1.Explorer(pp, v, e1.W_DEFAULT, e1.seed_history_P() + [alphabets.T('A', 'Q', '30 uL')], alphabets.geometry_sweep()[::2], MONS,
                    'G/S0/repeat', track_path=True, repeat=True).run(1, col)
        held_slices(col, pp, v)
        refused_bakes(col, pp, v, 2 if col.tier == 'quick' else 3)
        recipes(col, pp, v)
        e1.Explorer(pp, v, e1.W_DEFAULT, e1.seed_history_P(), C03.full_alphabet(), MONS, 'F', track_path=True).run(
            2 if col.tier == 'quick' else 3, col)
        e1.Explorer(pp, v, e1.W_DEFAULT, e1.seed_history_P(), alphabets.geometry_sweep(), MONS, 'G/S0',
                    track_path=True).run(1, col)


def replay(case):
    pp = env.load()
    if 'refused_bake_program' in case:
        from .. import e2
        voc = case['refused_bake_program']
        _G.update(pp=env.load(), vidx=case['vidx'], voc=voc)
        return _refused_bake_case(tuple(range(len(voc))))[0]
    if 'held_slice' in case:
        _G.update(pp=pp, vidx=case['vidx'])
        return _held_slice_case(tuple(case['held_slice']))[0]
    if 'recipe_act' in case:
        _G.update(pp=pp, vidx=case['vidx'], alphabet=[case['recipe_act']])
        return _recipe_case(0)[0]
    return e1.replay_case(pp, case, MONS)
