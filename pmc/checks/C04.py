"""C04 — values are immutable: no operation modifies its arguments, also when it raises; results never alias."""
from .. import alphabets, e1, env, monitors, par, report, selectors
from ..report import V
from . import C03

PID = 'C04'
MONS = [monitors.m_immutable]
T = alphabets.T


# ---- (b) a slice object held across two calls ------------------------------------------------------------------
SLICE_OPS = ['remove', 'fill_to', 'fill_to_fail', 'transfer_in', 'transfer_out', 'transfer_in_fail', 'get_volumes',
             'to_other_plate', 'from_other_plate', 'to_many']


def _slice_call(pp, subs, world, sl, op):
    if op == 'remove':
        return sl.remove(subs['water'])
    if op == 'fill_to':
        return sl.fill_to(subs['dmso'], '300 uL')
    if op == 'fill_to_fail':
        return sl.fill_to(subs['dmso'], '900 uL')          # beyond the well capacity: raises part-way
    if op == 'transfer_in':
        return pp.Plate.transfer(world['A'], sl, '5 uL')
    if op == 'transfer_in_fail':
        return pp.Plate.transfer(world['A'], sl, '450 uL')  # overflows at some well
    if op == 'transfer_out':
        return pp.Container.transfer(sl, world['B'], '2 uL')
    if op == 'to_other_plate':
        return pp.Plate.transfer(sl, world['Q'][1, 1], '2 uL')       # the held slice as the SOURCE of a plate-to-plate transfer
    if op == 'from_other_plate':
        return pp.Plate.transfer(world['Q'][2, 2], sl, '1 uL')       # ... and as its destination (Q is loaded by the seed)
    if op == 'to_many':
        return pp.Plate.transfer(sl, world['Q'][1], '2 uL')          # the held slice as the ONE side of a one-to-many transfer
    if op == 'get_volumes':
        # looking at a slice (its cached geometry, and the texts that name it)
        return (sl.get_volumes(), sl.shape, sl.size, repr(sl), str(sl), sl.name)
    raise env.InternalError(op)


def _result_fp(r):
    if isinstance(r, tuple):
        return tuple(_result_fp(x) for x in r)
    if e1.is_plate(r) or hasattr(r, 'contents'):
        return e1.canon_obj(r, 9)
    return repr(r)


_G = {}


def _hs_seed():
    return e1.seed_history_P() + [alphabets.T('A', 'Q', '30 uL')]


def _held_slice_case(item):
    sel, op1, op2 = item
    pp, vidx = _G['pp'], _G['vidx']
    subs, world = e1.build(pp, vidx, e1.W_DEFAULT, _hs_seed())
    plate = world['P']
    sl = plate[selectors.ev(sel)]
    fp_plate, fp_world, fp_slices = e1.exact_obj(plate), e1.exact_world(world), repr(sl.slices)
    case = {'vidx': vidx, 'held_slice': [sel, op1, op2]}
    vs = []
    outcomes = []
    try:
        _slice_call(pp, subs, world, sl, op1)
        outcomes.append('ok')
    except Exception as e:  # noqa
        outcomes.append(type(e).__name__)
    if sl.plate is not plate or repr(sl.slices) != fp_slices:
        vs.append(V(f"PlateSlicer.{op1.split('_fail')[0]} | argument-mutated | slice-object,outcome={'raised' if outcomes[0] != 'ok' else 'returned'}",
                    f"s = P[{sel}]; {op1} through s changed the slice object itself (the plate it points at, or its list of wells)", case))
    if e1.exact_world(world) != fp_world:
        vs.append(V(f"PlateSlicer.{op1.split('_fail')[0]} | argument-mutated | plate,outcome={'raised' if outcomes[0] != 'ok' else 'returned'}",
                    f"s = P[{sel}]; {op1} through s modified the plate (or another argument) in place", case))
    if vs:
        return vs, tuple(outcomes)
    # second use of the same slice object must behave like a fresh slice of the original plate
    try:
        got = _result_fp(_slice_call(pp, subs, world, sl, op2))
    except Exception as e:  # noqa
        got = 'raises ' + type(e).__name__
    subs2, world2 = e1.build(pp, vidx, e1.W_DEFAULT, _hs_seed())
    try:
        want = _result_fp(_slice_call(pp, subs2, world2, world2['P'][selectors.ev(sel)], op2))
    except Exception as e:  # noqa
        want = 'raises ' + type(e).__name__
    outcomes.append('same' if got == want else 'differs')
    if e1.exact_world(world) != fp_world:
        vs.append(V(f"PlateSlicer.{op2.split('_fail')[0]} | argument-mutated | plate,second-use-after={op1.split('_fail')[0]}",
                    f"s = P[{sel}]; after {op1} through s, {op2} through the same s modified the plate (or another argument) in "
                    f"place", case))
    elif got != want:
        vs.append(V(f"PlateSlicer.{op2.split('_fail')[0]} | earlier-result-mutated | reused-slice-after={op1.split('_fail')[0]}",
                    f"s = P[{sel}]; after {op1} through s, {op2} through the same s differs from {op2} on a fresh slice",
                    case, want, got))
    return vs, tuple(outcomes)


def held_slices(col, pp, vidx):
    _G.update(pp=pp, vidx=vidx)
    items = [(sel, a, b) for sel in alphabets.P_SLICES + ["slice(None)"] for a in SLICE_OPS for b in SLICE_OPS]
    res = par.pmap(_held_slice_case, items)
    classes = set()
    for (sel, a, b), (vs, oc) in zip(items, res):
        col.add(vs)
        classes.add((a, b, oc))
    col.count('transitions', 2 * len(items))
    col.count('traces', len(items))
    col.count('evaluations', len(items))
    col.note_nontrivial({report.digest(('HS', vidx, c)) for c in classes})
    col.cov.setdefault('held_slices', []).append({'valuation': vidx, 'cases': len(items), 'classes': len(classes)})
    col.sample({'held_slice_case': items[len(items) // 3]})


# ---- (c) originals handed to a recipe ----------------------------------------------------------------------------
def _recipe_case(ai):
    pp, vidx = _G['pp'], _G['vidx']
    act = _G['alphabet'][ai]
    subs, world = e1.build(pp, vidx, e1.W_DEFAULT, e1.seed_history_P())
    fp = e1.exact_world(world)
    fps = tuple(e1.exact_obj(s) for s in subs.values())
    case = {'vidx': vidx, 'recipe_act': act}
    try:
        obs = e1.apply_via_recipe(pp, subs, world, act)
    except env.InternalError:
        return [], None
    outcome = 'returned' if obs['ok'] else 'raised'
    vs = []
    if e1.exact_world(world) != fp or tuple(e1.exact_obj(s) for s in subs.values()) != fps or \
            any(e1.exact_obj(o) != f0 for f0, o in obs.get('passed', ())):
        vs.append(V(f"Recipe | argument-mutated | op={act['op']},outcome={outcome}",
                    f"declaring, adding the step {e1.act_str(act)} and baking ({outcome}) modified an object handed to the "
                    f"recipe", case))
    if obs['ok']:
        # a second recipe built from the first one's results must not alter them
        res = obs['new']
        fp2 = {n: e1.exact_obj(o) for n, o in res.items()}
        w2 = dict(world)
        w2.update(res)
        try:
            e1.apply_via_recipe(pp, subs, w2, act)
        except env.InternalError:
            pass
        if {n: e1.exact_obj(o) for n, o in res.items()} != fp2:
            vs.append(V(f"Recipe | earlier-result-mutated | op={act['op']}",
                        f"a second recipe performing {e1.act_str(act)} on the first recipe's results altered them", case))
    return vs, (act['op'], outcome)


def recipes(col, pp, vidx):
    alphabet = [a for a in C03.full_alphabet() if a['op'] != 'add']
    # a list-addressed slice whose wells are not written in plate order, on either side (bake names it in the step's text)
    unsorted = ['P', "[('B', 2), ('A', 1)]"]
    alphabet += [alphabets.T('A', unsorted, '4 uL'), alphabets.T(unsorted, 'E', '4 uL'), alphabets.T(unsorted, ['Q', "['B:1', 'A:2']"], '4 uL'),
                 {'op': 'remove', 'obj': unsorted, 'what': 'water'}, {'op': 'fill_to', 'obj': unsorted, 'solvent': 'dmso', 'q': '300 uL'}]
    _G.update(pp=pp, vidx=vidx, alphabet=alphabet)
    res = par.pmap(_recipe_case, list(range(len(alphabet))))
    classes = set()
    for vs, oc in res:
        col.add(vs)
        if oc:
            classes.add(oc)
    col.count('transitions', 2 * len(alphabet))
    col.count('traces', len(alphabet))
    col.count('evaluations', len(alphabet))
    col.note_nontrivial({report.digest(('R', vidx, c)) for c in classes})
    col.cov.setdefault('recipe_cases', []).append({'valuation': vidx, 'cases': len(alphabet), 'classes': len(classes)})


# ---- (d) a recipe is a holder of values too: a refused bake leaves it exactly as it was -------------------------------------
def _recipe_fp(recipe):
    return (tuple(sorted((k, e1.exact_obj(v)) for k, v in recipe.results.items())), tuple(sorted(map(str, recipe.used))),
            tuple(sorted((k, (v.start, v.stop)) for k, v in recipe.stages.items())),
            (recipe.current_stage, getattr(recipe, 'current_stage_start', None)), bool(recipe.locked),
            tuple((s.operator, len(s.frm), len(s.to),
                   tuple(e1.exact_obj(x) if x is not None and not isinstance(x, str) else x for x in list(s.frm) + list(s.to)),
                   tuple(sorted((x.name, repr(a)) for x, a in s.trash.items())), tuple(sorted(map(str, s.objects_used))),
                   tuple(sorted(x.name for x in s.substances_used)), s.instructions) for s in recipe.steps))


def _refused_bake_case(prog_idx):
    from .. import e2
    pp, vidx, voc = _G['pp'], _G['vidx'], _G['voc']
    program = [voc[i] for i in prog_idx]
    out_names = e2.outside_mentioned(program)
    extra = next((n for n in ('B', 'P', 'A') if n not in out_names), None)
    if extra is None:
        return [], None
    env.clear_caches(pp)
    subs, world = e2.pristine(pp, vidx)
    recipe, handles = pp.Recipe(), {}
    case = {'vidx': vidx, 'refused_bake_program': program}
    text = ' ; '.join(e1.act_str(a) for a in program)
    try:
        for n in out_names + [extra]:
            recipe.uses(world[n])
        recipe.start_stage('s')
        for act in program:
            e2.add_step(pp, subs, world, handles, recipe, act)
    except Exception:  # noqa: a step refused when added - not this pass
        return [], ('not-built',)
    fp_world, fp = e1.exact_world(world), _recipe_fp(recipe)
    # declaring and step-adding calls that the recipe refuses (a name that is taken, an undeclared object, a stage that is
    # open / not open): whatever they raise, the recipe and the objects are left exactly as they were
    nacl, water = subs['nacl'], subs['water']
    declared_container = next((world[n] for n in out_names + [extra] if not e1.is_plate(world[n])), None)
    for label, call in (('create_container', lambda: recipe.create_container(extra, '5 mL')),
                        ('create_container', lambda: recipe.create_container(extra, '5 mL', [(water, '1 mL')])),
                        ('create_solution', lambda: recipe.create_solution(nacl, water, name=extra, concentration='0.5 M',
                                                                           total_quantity='2 mL')),
                        ('uses', lambda: recipe.uses(pp.Container(extra, '1 mL'))),
                        ('transfer', lambda: recipe.transfer(pp.Container('nobody', '1 mL', [(water, '0.5 mL')]), world[extra], '1 uL')),
                        ('remove', lambda: recipe.remove(pp.Container('nobody', '1 mL'), water)),
                        ('start_stage', lambda: recipe.start_stage('s')), ('start_stage', lambda: recipe.start_stage('t')),
                        ('end_stage', lambda: recipe.end_stage('zz')),
                        # refused only after the cheap argument checks: a target the stock cannot be diluted to
                        ('create_solution_from', lambda: recipe.create_solution_from(declared_container, nacl, '0 M', water, '1 mL',
                                                                                     name='fresh')),
                        ('create_solution_from', lambda: recipe.create_solution_from(declared_container, nacl, '-1 M', water,
                                                                                     '1 mL')),
                        ('dilute', lambda: recipe.dilute(declared_container, nacl, '0 M', water))):
        if declared_container is None and label in ('create_solution_from', 'dilute'):
            continue
        try:
            call()
            return [], ('accepted-refusable', label)         # accepting it is C16's matter; the recipe is not comparable any more
        except Exception:  # noqa
            pass
        after = _recipe_fp(recipe)
        if after != fp or e1.exact_world(world) != fp_world:
            part = [name for name, a, b in zip(('results', 'used', 'stages', 'open stage', 'locked', 'step records'), fp, after) if a != b]
            return [V(f"Recipe.{label} | recipe-state-changed | refused-call,changed={'+'.join(part) or 'objects'}",
                      f"[{text}], then a {label} call that the recipe refuses (name '{extra}' is taken / object not declared / stage "
                      f"open): the refused call left the recipe changed ({', '.join(part) or 'an object handed to uses()'})", case)], \
                ('refused-call-changed', label)
    try:
        recipe.bake()
        return [], ('baked',)           # accepted although an object is unused: C16's matter
    except ValueError:
        pass
    except Exception as e:  # noqa
        return [V(f"Recipe.bake | wrong-exception | refused-bake,raises={type(e).__name__}",
                  f"[{text}] + an unused declared object: bake() raised {type(e).__name__}: {e}", case)], ('crash',)
    vs = []
    if e1.exact_world(world) != fp_world:
        vs.append(V("Recipe.bake | argument-mutated | refused-bake,objects-handed-to-uses",
                    f"[{text}] + an unused declared object: the refused bake() modified an object handed to uses()", case))
    after = _recipe_fp(recipe)
    if after != fp:
        part = [name for name, a, b in zip(('results', 'used', 'stages', 'open stage', 'locked', 'step records'), fp, after) if a != b]
        vs.append(V(f"Recipe.bake | recipe-state-changed | refused-bake,changed={'+'.join(part)}",
                    f"[{text}] + an unused declared object '{extra}': bake() raised ValueError and left the recipe changed "
                    f"({', '.join(part)})", case))
    return vs, ('refused', len(program))


def refused_bakes(col, pp, vidx, depth):
    from .. import e2
    voc = e2.vocabulary()
    _G.update(pp=pp, vidx=vidx, voc=voc)
    _, programs, _ = e2.successful_programs(pp, vidx, depth, voc)
    res = par.pmap(_refused_bake_case, programs)
    classes = set()
    n = 0
    for vs, oc in res:
        col.add(vs)
        if oc:
            classes.add(oc)
            n += oc[0] == 'refused'
    col.count('transitions', len(programs))
    col.count('traces', n)
    col.count('evaluations', n)
    col.note_nontrivial({report.digest(('RB', vidx, c)) for c in classes})
    col.cov.setdefault('refused_bakes', []).append({'valuation': vidx, 'programs': len(programs), 'refused_bakes_fingerprinted': n})


# ---- (e) looking is not touching: an operation on objects that were looked at returns what it returns on objects that were not ----
def _answers(pp, subs, o):
    """What a fixed set of read-only queries says about an object (errors included)."""
    out = []

    def ask(label, fn):
        try:
            r = fn()
            out.append((label, repr(sorted(x.name for x in r)) if isinstance(r, (set, frozenset)) else repr(getattr(r, 'tolist', lambda: r)())))
        except Exception as e:  # noqa
            out.append((label, 'raises ' + type(e).__name__))
    if e1.is_plate(o):
        ask('get_volumes', lambda: o.get_volumes(unit='uL'))
        ask('get_substances', lambda: o.get_substances())
        for n in ('water', 'nacl', 'lipase'):
            ask(f'get_moles({n})', lambda: o.get_moles(subs[n], unit='umol'))
        ask('get_volume', lambda: o.get_volume('uL'))
    else:
        ask('get_volume', lambda: o.get_volume('uL'))
        ask('get_substances', lambda: o.get_substances())
        ask('has_liquid', lambda: o.has_liquid())
        ask('repr', lambda: (repr(o), str(o)))
        for n in ('water', 'nacl', 'dmso', 'lipase'):
            for u in ('M', 'g/L', 'm', '%w/w'):
                ask(f'get_concentration({n},{u})', lambda: o.get_concentration(subs[n], u))
    return out


def _looked_case(idx):
    pp, vidx, alphabet = _G['pp'], _G['vidx'], _G['alphabet']
    act = alphabet[idx]
    case = {'vidx': vidx, 'looked_at': act}
    worlds = []
    for look in (True, False):
        subs, world = e1.build(pp, vidx, e1.W_DEFAULT, e1.seed_history_P())
        first = None
        if look:
            first = {n: _answers(pp, subs, o) for n, o in sorted(world.items())}
        try:
            obs = e1.apply(pp, subs, world, act)
        except env.InternalError:
            raise
        post = e1.commit(world, obs) if obs['ok'] else world
        worlds.append((subs, world, post, obs, first))
    (s1, w1, p1, o1, first), (s2, w2, p2, o2, _) = worlds
    site = f"{act['op']}"
    if o1['ok'] != o2['ok']:
        return [V(f"{site} | depends-on-having-been-looked-at | outcome", f"{e1.act_str(act)} {'returns' if o1['ok'] else 'raises'} on objects "
                  f"whose read-only queries were called before and {'returns' if o2['ok'] else 'raises'} on objects that were never looked at",
                  case)], (act['op'], 'outcome')
    if e1.exact_world(p1) != e1.exact_world(p2):
        return [V(f"{site} | depends-on-having-been-looked-at | results", f"{e1.act_str(act)} gives other objects when the arguments' "
                  f"read-only queries (get_concentration, get_volume, get_substances, get_volumes, get_moles, repr) were called before",
                  case)], (act['op'], 'results')
    for n in sorted(p1):
        a1, a2 = _answers(pp, s1, p1[n]), _answers(pp, s2, p2[n])
        if a1 != a2:
            d = next((x, y) for x, y in zip(a1, a2) if x != y)
            return [V(f"{site} | depends-on-having-been-looked-at | answers-about-the-result",
                      f"after {e1.act_str(act)}, {n}.{d[0][0]} = {d[0][1]} when the arguments had been looked at before the call and "
                      f"{d[1][1]} when not (equal objects: the earlier look travelled into the result)", case, d[1][1], d[0][1])], \
                (act['op'], 'answers')
    # a second look at the untouched arguments says what the first look said
    again = {n: _answers(pp, s1, o) for n, o in sorted(w1.items())}
    if again != first:
        n = next(k for k in first if first[k] != again[k])
        return [V(f"{site} | second-look-differs | arguments", f"{n}: the read-only queries answer differently after {e1.act_str(act)} "
                  f"than before it although {n} is a value", case)], (act['op'], 'second-look')
    return [], (act['op'], 'ok' if o1['ok'] else 'raised')


def looked_at(col, pp, vidx):
    alphabet = [a for a in C03.full_alphabet() if a['op'] != 'add'] + alphabets.geometry_sweep()[::5]
    _G.update(pp=pp, vidx=vidx, alphabet=alphabet)
    res = par.pmap(_looked_case, list(range(len(alphabet))))
    classes = set()
    for vs, oc in res:
        col.add(vs)
        classes.add(oc)
    col.count('transitions', 2 * len(alphabet))
    col.count('traces', len(alphabet))
    col.count('evaluations', len(alphabet))
    col.note_nontrivial({report.digest(('L', vidx, c)) for c in classes})
    col.cov.setdefault('looked_at', []).append({'valuation': vidx, 'actions': len(alphabet), 'classes': len(classes)})


# ---- (f) the recipe's queries are read-only: asking one does not change what another answers -----------------------------------
def _query_case(prog_idx):
    from .. import e2
    pp, vidx, voc = _G['pp'], _G['vidx'], _G['voc']
    program = [voc[i] for i in prog_idx]
    b = e2.bake(pp, vidx, program)
    if not b['ok']:
        return [], ('not-baked',)
    recipe, results, subs = b['recipe'], b['results'], b['subs']
    case = {'vidx': vidx, 'query_program': program}
    text = ' ; '.join(e1.act_str(a) for a in program)

    def ask_all():
        out = []
        for n, o in sorted(results.items()):
            for label, fn in (('flows', lambda: recipe.get_container_flows(o, 'all', 'uL')),
                              ('remaining', lambda: recipe.get_amount_remaining(o, 'all', 'uL')),
                              ('remaining-before', lambda: recipe.get_amount_remaining(o, 'all', 'uL', 'before'))):
                try:
                    r = fn()
                    r = {k: getattr(v, 'tolist', lambda v=v: v)() for k, v in r.items()} if isinstance(r, dict) else \
                        getattr(r, 'tolist', lambda: r)()
                    out.append((label, n, repr(r)))
                except Exception as e:  # noqa
                    out.append((label, n, 'raises ' + type(e).__name__))
        for sn in ('water', 'nacl', 'dmso', 'lipase'):
            unit = 'U' if sn == 'lipase' else 'umol'
            for dest in ('plates', 'all-results'):
                try:
                    d = "plates" if dest == 'plates' else list(results.values())
                    out.append(('used', sn + '/' + dest, repr(recipe.get_substance_used(subs[sn], 'all', unit, d))))
                except Exception as e:  # noqa
                    out.append(('used', sn + '/' + dest, 'raises ' + type(e).__name__))
        return out
    fp = (_recipe_fp(recipe), {n: e1.exact_obj(o) for n, o in results.items()})
    first = ask_all()
    second = ask_all()
    if first != second:
        d = next((x, y) for x, y in zip(first, second) if x != y)
        return [V(f"Recipe.{'get_container_flows' if d[0][0] == 'flows' else 'get_amount_remaining' if d[0][0].startswith('remaining') else 'get_substance_used'}"
                  f" | answer-changed-by-queries | query={d[0][0]}",
                  f"[{text}] baked; {d[0][0]}({d[0][1]}) answered {d[0][2]} first and {d[1][2]} after the other read-only queries "
                  f"(flows, amount remaining, substance used) had been asked", case, d[0][2], d[1][2])], ('changed',)
    if (_recipe_fp(recipe), {n: e1.exact_obj(o) for n, o in results.items()}) != fp:
        return [V("Recipe | recipe-state-changed | read-only-queries", f"[{text}] baked; the read-only queries changed the recipe or "
                  f"the baked objects", case)], ('recipe-changed',)
    return [], ('same', len(program))


def queries_read_only(col, pp, vidx, depth):
    from .. import e2
    voc, programs, _ = e2.successful_programs(pp, vidx, depth)
    _G.update(pp=pp, vidx=vidx, voc=voc)
    res = par.pmap(_query_case, programs, chunk=4)
    classes = set()
    for vs, oc in res:
        col.add(vs)
        classes.add(oc)
    col.count('transitions', 2 * len(programs))
    col.count('traces', len(programs))
    col.count('evaluations', len(programs))
    col.note_nontrivial({report.digest(('Q', vidx, c)) for c in classes})
    col.cov.setdefault('queries_read_only', []).append({'valuation': vidx, 'programs': len(programs)})


def run(col):
    pp = env.load()
    col.rule = ("exact structural fingerprints (name, contents, volume, capacity, instructions, every well, labels; slices: "
                "plate identity + resolved slices; substances: all attributes) of every argument before and after each "
                "call, returned or raised, and of every object produced earlier on the history, along every history of the "
                "full operation menu incl. failing calls (depth 2 quick / 3 thorough) and the geometry sweep; every "
                "(slice geometry x op x op) with one slice object held across both calls; every action as a recipe "
                "(declare, add, bake, second recipe on the results); (e) every action of the menu on a world whose objects were "
                "looked at (all read-only queries) and on one that was not: same outcome, same objects, same answers about the results, and "
                "a second look at the arguments repeats the first; (f) every successful E2 program of <= 2 steps baked, then every tracking "
                "query asked twice with all the others in between: same answers, recipe and objects unchanged. Non-trivial = distinct observation classes")
    col.assumptions += ["instruction text is part of the fingerprint; numpy arrays are compared element-wise via the wells"]
    vals = [col.seed % 3] if col.tier == 'quick' else [0, 1, 2]
    for v in vals:
        e1.Explorer(pp, v, e1.W_DEFAULT, e1.seed_history_P() + [alphabets.T('A', 'Q', '30 uL')], alphabets.geometry_sweep()[::2], MONS,
                    'G/S0/repeat', track_path=True, repeat=True).run(1, col)
        held_slices(col, pp, v)
        refused_bakes(col, pp, v, 2 if col.tier == 'quick' else 3)
        recipes(col, pp, v)
        looked_at(col, pp, v)
        queries_read_only(col, pp, v, 2)
        e1.Explorer(pp, v, e1.W_DEFAULT, e1.seed_history_P(), C03.full_alphabet(), MONS, 'F', track_path=True).run(
            2 if col.tier == 'quick' else 3, col)
        e1.Explorer(pp, v, e1.W_DEFAULT, e1.seed_history_P(), alphabets.geometry_sweep(), MONS, 'G/S0',
                    track_path=True).run(1, col)


def replay(case):
    pp = env.load()
    if 'query_program' in case:
        _G.update(pp=pp, vidx=case['vidx'], voc=case['query_program'])
        return _query_case(tuple(range(len(case['query_program']))))[0]
    if 'looked_at' in case:
        _G.update(pp=pp, vidx=case['vidx'], alphabet=[case['looked_at']])
        return _looked_case(0)[0]
    if 'refused_bake_program' in case:
        from .. import e2
        voc = case['refused_bake_program']
        _G.update(pp=env.load(), vidx=case['vidx'], voc=voc)
        return _refused_bake_case(tuple(range(len(voc))))[0]
    if 'held_slice' in case:
        _G.update(pp=pp, vidx=case['vidx'])
        return _held_slice_case(tuple(case['held_slice']))[0]
    if 'recipe_act' in case:
        _G.update(pp=pp, vidx=case['vidx'], alphabet=[case['recipe_act']])
        return _recipe_case(0)[0]
    return e1.replay_case(pp, case, MONS)
