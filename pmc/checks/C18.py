"""C18 — answers in user units do not depend on the internal storage configuration (differential over configurations)."""
import json
import os

import numpy

from .. import alphabets, e1, e2, env, par, ref, report, sub
from ..report import V
from . import C03, C05, C11, C12

PID = 'C18'
_G = {}
BASE = {}
QUICK = [{'moles_storage_unit': 'mmol', 'volume_storage_unit': 'mL'}, {'moles_storage_unit': 'nmol', 'volume_storage_unit': 'nL'},
         {'moles_storage_unit': 'umol', 'volume_storage_unit': 'mL'}, {'moles_storage_unit': 'mmol', 'volume_storage_unit': 'uL'},
         {'moles_storage_unit': 'mol', 'volume_storage_unit': 'L'}, {'internal_precision': 12}, {'internal_precision': 8}]
THOROUGH = [{'moles_storage_unit': m, 'volume_storage_unit': v} for m in ('mol', 'mmol', 'umol', 'nmol')
            for v in ('L', 'mL', 'uL', 'nL') if (m, v) != ('umol', 'uL')] + \
           [{'internal_precision': 12}, {'internal_precision': 8},
            {'moles_storage_unit': 'mmol', 'volume_storage_unit': 'mL', 'internal_precision': 12}]


# ---- observations in user units --------------------------------------------------------------------------------------
def obs_container(pp, subs, c):
    out = []
    for n in sorted(subs):
        s = subs[n]
        a = c.contents.get(s, 0.0)
        rs = ref.rsub(s)
        out.append(float(ref.base_amount(pp, rs, a)) * (1 if rs.kind == 'enzyme' else 1000.0))        # mmol or U
    out.append(c.get_volume('mL'))
    # the unit left out: the configured DISPLAY unit (the same in every configuration compared here). Kept in thousandths of
    # the last displayed digit, so that a rounding tie that falls the other way stays inside the 2e-3 tolerance
    out.append(c.get_volume() * 10.0 ** _prec(pp, pp.config.volume_display_unit) * 1e-3)
    out.append(c.max_volume * float(ref.storage_prefix(pp, 'L')) * 1000 if c.max_volume != float('inf') else -1.0)
    vol_l = float(ref.measure(pp, c.contents, 'L'))
    for n in sorted(subs):
        s = subs[n]
        present = float(ref.base_amount(pp, ref.rsub(s), c.contents.get(s, 0.0))) > 1.37e-8
        try:
            # the implementation rounds the volume in litres to 10^-precision: per-litre values only for >= 1 mL
            out.append(c.get_concentration(s, 'M' if not s.is_enzyme() else 'U/mL') if present and vol_l >= 0.737e-3 else 0.0)
            out.append(c.get_concentration(s, 'g/g') if present else 0.0)
            out.append(c.get_concentration(s, 'mol/mol' if not s.is_enzyme() else 'U/g') if present else 0.0)
        except Exception as e:  # noqa
            out.append('raises ' + type(e).__name__)
    return out


def obs_object(pp, subs, o):
    if e1.is_plate(o):
        out = []
        for w in o.wells.flatten():
            out += obs_container(pp, subs, w)
        out += numpy.asarray(o.get_volumes(unit='mL'), dtype=float).flatten().tolist()
        out += numpy.asarray(o.get_moles(subs['nacl'], unit='mmol'), dtype=float).flatten().tolist()
        kv, km = (10.0 ** _prec(pp, pp.config.volume_display_unit) * 1e-3, 10.0 ** _prec(pp, pp.config.moles_display_unit) * 1e-3)
        out += (numpy.asarray(o.get_volumes(), dtype=float).flatten() * kv).tolist()
        out += (numpy.asarray(o.get_volumes(subs['water']), dtype=float).flatten() * kv).tolist()
        out += (numpy.asarray(o.get_moles(subs['nacl']), dtype=float).flatten() * km).tolist()
        out += (numpy.asarray(o.get_moles([subs['nacl'], subs['water']]), dtype=float).flatten() * km).tolist()
        out.append(float(o.get_volume()) * kv / o.wells.size)       # a sum of per-well roundings: one tie per well may fall the other way
        return out
    return obs_container(pp, subs, o)


def outcome(obs):
    return 'ok' if obs['ok'] else ('ValueError' if isinstance(obs['exc'], ValueError) else type(obs['exc']).__name__)


# ---- scenario sets ------------------------------------------------------------------------------------------------------
def _not_tiny(act):
    q = act.get('q')
    if not q:
        return True
    try:
        v, b = ref.parse_quantity(q)
    except ValueError:
        return True
    return v == 0 or abs(v) >= {'L': 1e-6, 'g': 1e-4, 'mol': 1e-6, 'U': 1e-3}.get(b, 0)     # >= 1 uL / 0.1 mg / 1 umol / 1 mU


def _direct_one(i):
    pp = _G['pp']
    act = _G['direct'][i]
    subs, world = e1.build(pp, 0, e1.W_DEFAULT, e1.seed_history_P())
    o = e1.apply(pp, subs, world, act)
    nums = []
    for n in sorted(o['new']):
        nums += obs_object(pp, subs, o['new'][n])
    return f"direct/{i}:{e1.act_str(act)}", [outcome(o), nums]


def s_direct(pp):
    """Every single operation of the E1 menus on the seed world (quantities of at least 1 uL / 0.1 mg / 1 umol / 1 mU:
    amounts near the resolution of the coarsest storage setting are not a fair comparison)."""
    acts = [a for a in C03.full_alphabet() + alphabets.geometry_sweep()[::7] + alphabets.unit_sweep()[::3]
            if _not_tiny(a) and not (a['op'] == 'fill_to' and a.get('q') == '500 uL')]       # (a fill exactly to the brim is a tie)
    _G.update(pp=pp, direct=acts)
    return dict(par.pmap(_direct_one, list(range(len(acts)))))


AT_BOUNDARY = ('at-capacity', ',at,', 'whole-exact', 'whole-as-reported', 'at-current', 'zero', 'later-well')


def _boundary_one(i):
    pp = _G['pp']
    case = _G['bcases'][i]
    spec = {k: tuple(v) for k, v in case['spec'].items()}
    subs, world = e1.build(pp, 0, spec, [])
    for pa in case['pre']:
        o = e1.apply(pp, subs, world, C03.symbolic(pp, subs, world, pa))
        if o['ok']:
            world = e1.commit(world, o)
    act = C03.symbolic(pp, subs, world, case['act'])
    o = (e1.apply_via_recipe if case['recipe'] else e1.apply)(pp, subs, world, act)
    nums = []
    for n in sorted(o['new']):
        nums += obs_object(pp, subs, o['new'][n])
    return f"boundary/{i}:{case['feature']}{',recipe' if case['recipe'] else ''}", [outcome(o), nums]


def s_boundaries(pp):
    """The C03 boundary requests on either side of each boundary. Requests exactly AT a boundary are left to C03: with
    nL / nmol storage 10 decimals of the stored value are below double precision, so exact ties are not comparable."""
    C03._G.update(pp=pp, vidx=0)
    cases = [c for i, c in enumerate(C03.boundary_cases(0))
             if c['expect'] != 'either' and not any(t in c['feature'] + ',' for t in AT_BOUNDARY)
             and not (c['feature'].startswith('ctor') and i % 25)]
    _G.update(pp=pp, bcases=cases)
    return dict(par.pmap(_boundary_one, list(range(len(cases)))))


def _prec(pp, unit):
    p = pp.config.precisions
    return p[unit] if unit in p else p['default']


def _prog(prog_idx):
    pp, voc = _G['pp'], _G['voc']
    program = [voc[i] for i in prog_idx]
    n = len(program)
    b = e2.bake(pp, 0, program, [(f's{i}', i, i + 1) for i in range(n)])
    key = 'program/' + ' ; '.join(e1.act_str(a) for a in program)
    if not b['ok']:
        return key, ['ValueError' if isinstance(b['exc'], ValueError) else type(b['exc']).__name__, []]
    subs, res, r = b['subs'], b['results'], b['recipe']
    nums = []
    for name in sorted(res):
        nums += obs_object(pp, subs, res[name])
    for sname in ('water', 'nacl', 'dmso', 'lipase'):
        s = subs[sname]
        for tf in ['all'] + [f's{i}' for i in range(n)]:
            for dest in ["plates"] + [[res[x]] for x in sorted(res)]:
                for unit in (('U',) if s.is_enzyme() else ('umol', 'mL', 'mg')):
                    sc = 10.0 ** _prec(pp, unit)          # stored in units of the last displayed digit
                    try:
                        nums.append(r.get_substance_used(s, tf, unit, dest) * sc)
                    except ValueError:
                        nums.append('ValueError')
                    except Exception as e:  # noqa
                        nums.append('raises ' + type(e).__name__)
    for name in sorted(res):
        for tf in ['all'] + [f's{i}' for i in range(n)]:
            for unit in ('uL', 'mg', 'umol'):
                sc = 10.0 ** _prec(pp, unit)
                try:
                    f = r.get_container_flows(res[name], tf, unit)
                    nums += (numpy.asarray(f['in'], dtype=float).flatten() * sc).tolist() + (numpy.asarray(f['out'], dtype=float).flatten() * sc).tolist()
                    for mode in ('before', 'after'):
                        v = r.get_amount_remaining(res[name], tf, unit, mode)
                        nums += numpy.asarray(v if v is not None else -1.0, dtype=float).flatten().tolist()
                except Exception as e:  # noqa
                    nums.append('raises ' + type(e).__name__)
        # ... and with the unit left out: the configured DISPLAY unit (the shipped one under every storage configuration)
        sc = 10.0 ** _prec(pp, pp.config.volume_display_unit)
        try:
            f = r.get_container_flows(res[name])
            nums += (numpy.asarray(f['in'], dtype=float).flatten() * sc).tolist() + (numpy.asarray(f['out'], dtype=float).flatten() * sc).tolist()
            v = r.get_amount_remaining(res[name])
            nums += (numpy.asarray(v if v is not None else -1.0, dtype=float).flatten() * sc).tolist()
        except Exception as e:  # noqa
            nums.append('raises ' + type(e).__name__)
    for sname in ('water', 'lipase'):
        try:
            nums.append(r.get_substance_used(subs[sname]) * 10.0 ** _prec(pp, 'U' if sname == 'lipase' else pp.config.moles_display_unit))
        except ValueError:
            nums.append('ValueError')
        except Exception as e:  # noqa
            nums.append('raises ' + type(e).__name__)
    return key, ['ok', nums]


def s_programs(pp, depth):
    voc = e2.vocabulary() + [
        # sub-micromole amounts (legitimate data under every storage unit: thousands of resolutions even for 'mol')
        alphabets.T('A', ['P', "(2, 1)"], '2 uL'), {'op': 'remove', 'obj': ['P', "(2, 1)"], 'what': 'nacl'},
        {'op': 'remove', 'obj': 'P', 'what': 'SOLID'}, alphabets.T('A', 'B', '3 uL'), {'op': 'remove', 'obj': 'B', 'what': 'nacl'}]
    # no exact ties: 'A -> B 1 mL' followed by two 'B -> A 0.5 mL' empties B exactly, and whether the second draw is still
    # 'not more than B holds' is decided by the last stored digit, which legitimately depends on the storage unit
    voc = [dict(a, q='0.45 mL') if a == alphabets.T('B', 'A', '0.5 mL') else a for a in voc]
    _G.update(pp=pp, voc=voc)
    # all programs incl. failing ones: the enumeration itself must not depend on the configuration, so it is the plain
    # product of the vocabulary restricted by enabledness
    progs = [()]
    allp = []
    for _ in range(depth):
        nxt = []
        for p in progs:
            for ai, act in enumerate(voc):
                if e2.enabled([voc[i] for i in p], act):
                    nxt.append(p + (ai,))
        allp += nxt
        progs = nxt
    return dict(par.pmap(_prog, allp, chunk=4))


def _spec_one(item):
    pp = _G['pp']
    name, i, sp = item
    subs = e1.substances(pp, 0)
    if name == 'C05':
        built = C05.build_spec(pp, subs, sp)
        if built is None:
            return None
        solutes, solvent, kw, rows, rhs = built
        sp2 = dict(sp, _cmin=None)
        if 'concentration' in kw:
            cl = kw['concentration'] if isinstance(kw['concentration'], list) else [kw['concentration']]
            sp2['_cmin'] = min(abs(float(ref.parse_concentration(c)[0])) for c in cl) or None
        expect, _ = C05.classify(sp2, rows, rhs, sp['solvent'] in C05.CONTAINERS)
        if expect == 'dontcare':
            return None
        try:
            r = pp.Container.create_solution(solutes if len(solutes) > 1 else solutes[0], solvent, 'N', **kw)
            objs = list(r) if isinstance(r, tuple) else [r]
            return f"C05/{i}", ['ok', sum((obs_container(pp, subs, o) for o in objs), [])]
        except ValueError:
            return f"C05/{i}", ['ValueError', []]
        except Exception as e:  # noqa
            return f"C05/{i}", [type(e).__name__, []]
    mod = C11 if name == 'C11' else C12
    vs, oc = mod.run_spec(sp)
    if oc[0] in ('skip', 'either'):
        return None
    return f"{name}/{i}", [oc[1] if len(oc) > 1 else 'x', []]      # decision only: the post-condition tolerances are tuned to the shipped storage resolution


def s_specs(pp, stride):
    """Every stride-th specification of C05 / C11 / C12 whose feasibility is not don't-care (C11/C12: decision and whether
    the result meets its post-conditions)."""
    C05._G.update(pp=pp, vidx=0)
    C11._G.update(pp=pp, vidx=0)
    C12._G.update(pp=pp, vidx=0)
    _G.update(pp=pp)
    items = [('C05', i, sp) for i, sp in enumerate(C05.specs(0)) if i % stride == 0 and not C05.holds_solute(sp)
             and sp['level'] != 'just-feasible']
    items += [('C11', i, sp) for i, sp in enumerate(list(C11.dilute_specs()) + list(C11.fill_specs()))
              if i % stride == 0 and not sp['mix'].startswith(('tiny', 'trace')) and sp['cap'] in ('inf', 'ample')]
    items += [('C12', i, sp) for i, sp in enumerate(C12.specs()) if i % stride == 0 and sp['size'] == 'small']
    return dict(r for r in par.pmap(_spec_one, items) if r)


def worker(arg):
    pp = env.load()
    out = {}
    out.update(s_direct(pp))
    out.update(s_boundaries(pp))
    out.update(s_programs(pp, arg['depth']))
    out.update(s_specs(pp, arg['stride']))
    return out


def compare(cfg, base, other, arg=None):
    viols = []
    loose = cfg.get('internal_precision', 10) < 10     # 'within rounding': a coarser precision is compared coarsely
    nums = 0
    tag = ','.join(f"{k.split('_')[0]}={v}" for k, v in sorted(cfg.items()))
    for key in base:
        if key not in other:
            viols.append(V(f"config | config-dependent | scenario-missing,{key.split('/')[0]}", f"{key} missing under {cfg}",
                           {'cfg': cfg, 'key': key, 'arg': arg}))
            continue
        (d0, n0), (d1, n1) = base[key], other[key]
        fam = key.split('/')[0]
        if loose and fam not in ('direct', 'program'):
            continue
        if d0 != d1:
            viols.append(V(f"config | config-dependent | decision,{fam}",
                           f"under {cfg} the scenario [{key}] is {d1}, under the shipped configuration it is {d0}",
                           {'cfg': cfg, 'key': key, 'arg': arg}, d0, d1))
            continue
        if len(n0) != len(n1):
            viols.append(V(f"config | config-dependent | shape,{fam}", f"[{key}] returns {len(n1)} numbers under {cfg}, {len(n0)} "
                           f"under the shipped configuration", {'cfg': cfg, 'key': key, 'arg': arg}))
            continue
        for j, (a, b) in enumerate(zip(n0, n1)):
            nums += 1
            if isinstance(a, str) or isinstance(b, str):
                num = b if isinstance(a, str) else a
                if 'ValueError' in (a, b) and not isinstance(num, str) and abs(num) <= 1e-3:
                    continue      # tracking noise zone: a net change of nothing is either 0 or a refused 'net decrease'
                if a != b:
                    viols.append(V(f"config | config-dependent | answer-kind,{fam}",
                                   f"[{key}] answer #{j} is {b!r} under {cfg}, {a!r} under the shipped configuration",
                                   {'cfg': cfg, 'key': key, 'arg': arg}, a, b))
                    break
                continue
            if abs(a - b) > (2e-2 if loose else 1e-4) * max(abs(a), abs(b)) + (1.01 if fam == 'program' else 2e-3):
                viols.append(V(f"config | config-dependent | value,{fam}",
                               f"[{key}] answer #{j} is {b!r} under {cfg}, {a!r} under the shipped configuration",
                               {'cfg': cfg, 'key': key, 'arg': arg}, a, b))
                break
    return viols, nums


def run(col):
    env.load()
    col.rule = ("one exhaustively enumerated scenario set (every single operation of the E1 menus on the seed world, every C03 "
                "boundary request directly and as recipe step, every program of <= 2 (quick) / 3 (thorough) steps over the recipe "
                "vocabulary with all tracking queries, every 7th C05/C11/C12 specification) executed in separate processes under "
                "the shipped configuration and 7 (quick) / 18 (thorough) others (storage units mol..nmol x L..nL incl. unprefixed and "
                "unequal prefixes, internal precision 8/12); accept/refuse decisions must be identical and every answer in user "
                "units equal within rounding. Non-trivial = distinct scenarios compared per configuration")
    col.assumptions += ["tolerance: 1e-4 relative + 2e-3 absolute (mL / mmol / M), one displayed unit for tracking answers",
                        "specifications whose feasibility is don't-care are not compared"]
    depth = 2 if col.tier == 'quick' else 3
    arg = {'depth': depth, 'stride': 21 if col.tier == 'quick' else 7}
    cfgs = QUICK if col.tier == 'quick' else THOROUGH
    width = 4
    os.environ['PMC_PROCS'] = str(max(2, env.nprocs() // width))
    todo = [BASE] + cfgs
    results = {}
    for lo in range(0, len(todo), width):
        batch = [(c, sub.start_in_config('pmc.checks.C18', 'worker', c, arg)) for c in todo[lo:lo + width]]
        for c, pr in batch:
            try:
                results[json.dumps(c, sort_keys=True)] = sub.finish(pr, f"C18 {c}")
            except env.InternalError as e:
                results[json.dumps(c, sort_keys=True)] = e
    base = results[json.dumps(BASE, sort_keys=True)]
    if isinstance(base, Exception):
        raise base
    total_nums = 0
    for cfg in cfgs:
        other = results[json.dumps(cfg, sort_keys=True)]
        if isinstance(other, Exception):
            col.add([V(f"config | config-dependent | crashes,{'unprefixed' if 'L' in cfg.values() or 'mol' in cfg.values() else 'prefixed'}",
                       f"the scenario set cannot even run under {cfg}: {str(other)[-400:]}", {'cfg': cfg, 'key': None})])
            continue
        vs, nums = compare(cfg, base, other, arg)
        col.add(vs)
        total_nums += nums
        col.cov.setdefault('configs', []).append({'config': cfg, 'scenarios': len(other), 'numbers_compared': nums,
                                                  'violations': len(vs)})
    col.count('states', len(base))
    col.count('transitions', len(base) * (len(cfgs) + 1))
    col.count('traces', len(base) * len(cfgs))
    col.count('evaluations', total_nums)
    col.note_nontrivial({report.digest(k) for k in base})
    keys = sorted(base)
    col.sample({'scenario': keys[len(keys) // 2], 'answer_under_shipped_config': base[keys[len(keys) // 2]][0]})
    col.sample({'scenario': keys[5]})


def replay(case):
    arg = case.get('arg') or {'depth': 2, 'stride': 7}
    base = sub.run_in_config('pmc.checks.C18', 'worker', BASE, arg)
    try:
        other = sub.run_in_config('pmc.checks.C18', 'worker', case['cfg'], arg)
    except env.InternalError as e:
        return [V(f"config | config-dependent | crashes,{'unprefixed' if 'L' in case['cfg'].values() or 'mol' in case['cfg'].values() else 'prefixed'}",
                  str(e)[-300:], case)]
    return compare(case['cfg'], base, other, arg)[0]
