"""C06 — unit conversions follow molar mass, density and specific activity (complete unit-pair x prefix enumeration)."""
import json
import math
import os
from fractions import Fraction as F

from .. import env, ref, report, sub
from ..report import V

PID = 'C06'
PREFIXES = ['n', 'u', 'µ', 'm', 'c', 'd', '', 'da', 'k', 'M']
BASES = ['L', 'g', 'mol', 'U']
AMOUNTS = [0, 1, 2.5, 1e-3, 1e3, 7]
SUBST = [('solid', 'nacl', 58.4428), ('solid', 'glucose', 180.156), ('solid', 'sucrose', 342.3),
         ('liquid', 'water', 18.0153, 1.0), ('liquid', 'dmso', 78.13, 1.1004), ('liquid', 'tea', 101.19, 0.726),
         ('enzyme', 'lipase', '10 U/mg'), ('enzyme', 'amylase', '7 U/mg'), ('enzyme', 'lotB', '0.25 mg/U'),
         ('enzyme', 'lipase', '25 U/mg'),          # a second lot carrying the same name
         ('liquid', 'water', 20.0276, 1.1056)]     # heavy water sold under the same name
CONFIGS_QUICK = [{}, {'default_solid_density': 2.16, 'default_enzyme_density': 0.5},
                 {'default_solid_density': 'inf', 'default_enzyme_density': 'inf'},
                 # storage units that differ from each other and from the (shipped) display units
                 {'moles_storage_unit': 'mmol', 'volume_storage_unit': 'L'}]
CONFIGS_THOROUGH = [{'default_solid_density': s, 'default_enzyme_density': e} for s in (1, 2.16, 'inf')
                    for e in (1, 0.5, 'inf')] + [{'moles_storage_unit': 'mmol', 'volume_storage_unit': 'L'},
                                                 {'moles_storage_unit': 'mol', 'volume_storage_unit': 'mL'}]


def mk(pp, spec):
    if spec[0] == 'solid':
        return pp.Substance.solid(spec[1], spec[2])
    if spec[0] == 'liquid':
        return pp.Substance.liquid(spec[1], spec[2], spec[3])
    return pp.Substance.enzyme(spec[1], spec[2])


def sig(fn, kind, why, bf, bt, pf, pt):
    return (f"Unit.{fn} | {why} | kind={kind},from={bf},to={bt},prefixed-from={int(bool(pf))},prefixed-to={int(bool(pt))}")


def _one_substance(si):
    pp = env.load()
    U = pp.Unit
    viols, classes, n = [], set(), 0
    cfg = json.loads(os.environ.get('PMC_CONFIG_OVERRIDES') or '{}')
    # every substance object is created (as a user would hold them all), one is exercised
    subs = [(spec, mk(pp, spec)) for spec in SUBST]
    units = [(p, b) for b in BASES for p in PREFIXES]
    for _spec, _s in subs:          # touch every substance once first: conversions must not depend on call history
        try:
            U.convert_from(_s, 1, 'g', 'g')
            if _spec[0] == 'enzyme':
                U.convert_from(_s, 2.5, 'g', 'U')
                U.convert_from(_s, 7, 'mg', 'L')
        except Exception:  # noqa: judged below, where the same conversions are part of the table
            pass
    for spec, s in [subs[si]]:
        rs = ref.rsub(s)
        kind = spec[0]
        for pf, bf in units:
            fu = pf + bf
            for pt, bt in units:
                tu = pt + bt
                case = {'cfg': cfg, 'spec': spec, 'from': fu, 'to': tu}
                # expectation
                if bf == 'U' and kind != 'enzyme':
                    expect = 'reject'
                elif kind == 'enzyme' and (bf == 'mol' or bt == 'mol'):
                    expect = F(0)
                elif kind != 'enzyme' and bt == 'U':
                    expect = F(0)
                else:
                    expect = ref.convert_factor(rs, fu, tu)       # None: undefined (infinite density on the source side)
                    if expect is None and bf == bt:
                        expect = ref.SI[pf] / ref.SI[pt]          # a change of prefix only is the same for every substance
                outs = []
                for x in AMOUNTS:
                    n += 1
                    try:
                        outs.append(U.convert_from(s, x, fu, tu))
                    except ValueError:
                        outs.append('ValueError')
                    except Exception as e:  # noqa
                        outs.append(type(e).__name__)
                oc = 'reject' if expect == 'reject' else 'undefined' if expect is None else 'zero' if expect == 0 else 'factor'
                classes.add((kind, bf, bt, bool(pf), bool(pt), oc))
                if expect == 'reject':
                    if any(o != 'ValueError' for o in outs):
                        viols.append(V(sig('convert_from', kind, 'accepted-non-enzyme-in-U', bf, bt, pf, pt),
                                       f"convert_from({spec[1]}, x, {fu!r}, {tu!r}) must raise ValueError, got {outs}", case))
                    continue
                if expect is None:
                    continue      # don't care
                bad = None
                for x, o in zip(AMOUNTS, outs):
                    want = float(expect * F(x))
                    if isinstance(o, str) or not (abs(o - want) <= 1e-12 * abs(want) + 1e-300) or \
                            (isinstance(o, float) and math.isnan(o)):
                        bad = (x, o, want)
                        break
                if bad:
                    viols.append(V(sig('convert_from', kind, 'wrong-factor', bf, bt, pf, pt),
                                   f"convert_from({spec[1]} {spec[2:]}, {bad[0]}, {fu!r}, {tu!r}) = {bad[1]!r}, "
                                   f"molar mass/density/specific activity give {bad[2]!r}", case, bad[2], bad[1]))
                    continue
                # linearity on the implementation itself
                if expect != 0:
                    try:
                        a, b = U.convert_from(s, 3.0, fu, tu), U.convert_from(s, 1.5, fu, tu)
                        back = U.convert_from(s, a, tu, fu)
                    except Exception as e:  # noqa
                        viols.append(V(sig('convert_from', kind, 'raises', bf, bt, pf, pt),
                                       f"convert_from({spec[1]}, 3.0 / 1.5, {fu!r}, {tu!r}) or the way back raised "
                                       f"{type(e).__name__}: {e}", case))
                        continue
                    if abs(a - 2 * b) > 1e-12 * abs(a):
                        viols.append(V(sig('convert_from', kind, 'not-linear', bf, bt, pf, pt),
                                       f"convert_from({spec[1]}, 3.0, ...) != 2*convert_from(.., 1.5, ..) for {fu}->{tu}", case))
                    # round trip
                    n += 3
                    if isinstance(back, (int, float)) and abs(back - 3.0) > 1e-11:
                        viols.append(V(sig('convert_from', kind, 'round-trip', bf, bt, pf, pt),
                                       f"{spec[1]}: 3.0 {fu} -> {tu} -> {fu} = {back!r}", case, 3.0, back))
        # composition a -> b -> c == a -> c over base triples with representative prefixes
        for (pa, ba) in [('m', 'L'), ('', 'g'), ('u', 'mol'), ('', 'U'), ('k', 'U'), ('m', 'g')]:
            for (pb, bb) in units:
                for (pc, bc) in [('', 'L'), ('m', 'g'), ('m', 'mol'), ('', 'U'), ('m', 'U'), ('k', 'g')]:
                    fa, fb, fc = pa + ba, pb + bb, pc + bc
                    try:
                        f_ab = ref.convert_factor(rs, fa, fb)
                        f_bc = ref.convert_factor(rs, fb, fc)
                    except Exception:  # noqa
                        continue
                    if ba == 'U' and kind != 'enzyme' or bb == 'U' and kind != 'enzyme':
                        continue
                    if not f_ab or not f_bc:
                        continue          # composition is only claimed where the factors are finite and non-zero
                    n += 3
                    try:
                        via = U.convert_from(s, U.convert_from(s, 2.5, fa, fb), fb, fc)
                        direct = U.convert_from(s, 2.5, fa, fc)
                    except Exception as e:  # noqa
                        viols.append(V(sig('convert_from', kind, 'raises', ba, bc, pa, pc),
                                       f"{spec[1]}: 2.5 {fa} -> {fb} -> {fc} raised {type(e).__name__}: {e}",
                                       {'cfg': cfg, 'spec': spec, 'from': fa, 'via': fb, 'to': fc}))
                        continue
                    if abs(via - direct) > 1e-11 * abs(direct):
                        viols.append(V(sig('convert_from', kind, 'not-composable', ba, bc, pa, pc),
                                       f"{spec[1]}: 2.5 {fa} -> {fb} -> {fc} = {via!r} but {fa} -> {fc} = {direct!r}",
                                       {'cfg': cfg, 'spec': spec, 'from': fa, 'via': fb, 'to': fc}, direct, via))
        # string front end
        for pf, bf in units:
            if bf == 'U' and pf:
                continue          # parse_quantity documents the bare activity unit only
            for pt, bt in [('', 'L'), ('m', 'L'), ('', 'g'), ('m', 'g'), ('', 'mol'), ('u', 'mol'), ('', 'U')]:
                for xs in ('2.5', '0', '1e-3'):
                    n += 1
                    q = f"{xs} {pf}{bf}"
                    try:
                        got = U.convert(s, q, pt + bt)
                    except ValueError:
                        got = 'ValueError'
                    except Exception as e:  # noqa
                        got = type(e).__name__
                    try:
                        want = U.convert_from(s, float(xs) * float(ref.SI[pf]), bf, pt + bt)
                    except ValueError:
                        want = 'ValueError'
                    except Exception as e:  # noqa: the table above reports it
                        want = type(e).__name__
                    if isinstance(want, float) and (math.isinf(want) or math.isnan(want)):
                        continue      # undefined region (infinite density on the source side)
                    same = (got == want) if isinstance(got, str) or isinstance(want, str) else \
                        abs(got - want) <= 1e-12 * abs(want)
                    if not same:
                        viols.append(V(sig('convert', kind, 'string-front-end', bf, bt, pf, pt),
                                       f"Unit.convert({spec[1]}, {q!r}, {pt + bt!r}) = {got!r} but convert_from gives {want!r}",
                                       {'cfg': cfg, 'spec': spec, 'q': q, 'to': pt + bt}, want, got))
    return viols, classes, n


def worker(arg):
    """Complete enumeration under the configuration given by PMC_CONFIG_OVERRIDES."""
    from .. import par
    pp = env.load()
    U = pp.Unit
    cfg = json.loads(os.environ.get('PMC_CONFIG_OVERRIDES') or '{}')
    viols, classes, n = [], set(), 0
    for v, c, k in par.pmap(_one_substance, list(range(len(SUBST))), chunk=1):
        viols += v
        classes |= c
        n += k
    # a substance keeps the density it was created with: re-configuring the defaults afterwards must not change its factors
    olds, olde = pp.config.default_solid_density, pp.config.default_enzyme_density
    solid, enz = mk(pp, SUBST[0]), mk(pp, SUBST[6])
    def conv(sub_, fu, tu):
        try:
            return U.convert_from(sub_, 2.5, fu, tu)
        except ValueError:
            return 'ValueError'          # a volume of a substance without volume (infinite density) is refused
    want = {(fu, tu): [conv(sub_, fu, tu) for sub_ in (solid, enz)]
            for fu in ('g', 'mL', 'L') for tu in ('uL', 'L', 'mg', 'g')}
    try:
        pp.config.default_solid_density = 0.4 if olds != 0.4 else 0.7
        pp.config.default_enzyme_density = 4.0 if olde != 4.0 else 3.0
        for (fu, tu), w in want.items():
            for sub_, kind, w1 in ((solid, 'solid', w[0]), (enz, 'enzyme', w[1])):
                n += 1
                got = conv(sub_, fu, tu)
                if not (got == w1 or (not isinstance(got, str) and not isinstance(w1, str) and abs(got - w1) <= 1e-12 * abs(w1))):
                    viols.append(V(f"Unit.convert_from | depends-on-later-configuration | kind={kind}",
                                   f"convert_from({sub_.name}, 2.5, {fu!r}, {tu!r}) was {w1!r} and became {got!r} after the default "
                                   f"densities were re-configured, although the substance's own density is unchanged",
                                   {'cfg': cfg, 'reconfigure': True}, w1, got))
    finally:
        pp.config.default_solid_density, pp.config.default_enzyme_density = olds, olde
    # stored amount -> "standard format" (value, unit): the unit is grams for a solid, litres for a liquid, U for an enzyme, with
    # a prefix chosen by magnitude; value x unit must be the amount that the stored number stands for
    for spec in SUBST:
        s_ = mk(pp, spec)
        rs_ = ref.rsub(s_)
        base_ = {'solid': 'g', 'liquid': 'L', 'enzyme': 'U'}[rs_.kind]
        for stored in (1e6, 12345.678, 2.5, 1.0, 1e-3, 3.7e-5):
            n += 1
            try:
                val, unit = U.convert_from_storage_to_standard_format(s_, stored)
                pfx, b = ref.split_unit(unit)
                got = float(F(val) * pfx) if b == base_ else None
            except Exception as e:  # noqa
                val, unit, got = type(e).__name__, '', None
            want = float(ref.base_amount(pp, rs_, stored) * ref.per_base(rs_, base_))
            if rs_.kind != 'enzyme' and rs_.rho is None and base_ == 'L':
                continue
            if got is None or abs(got - want) > 1e-9 * abs(want) + 10.0 ** -pp.config.internal_precision * float(ref.split_unit(unit)[0] if unit else 1):
                viols.append(V(f"Unit.convert_from_storage_to_standard_format | wrong-amount | kind={rs_.kind}",
                               f"convert_from_storage_to_standard_format({spec[1]} {spec[2:]}, {stored!r}) = ({val!r}, {unit!r}), the stored "
                               f"number stands for {want!r} {base_}", {'cfg': cfg, 'spec': spec, 'stored': stored}, want, got))
                break
    # the configured default densities are the ones in force: 1 mL of an enzyme holds default_enzyme_density activity units,
    # 1 mL of a solid weighs default_solid_density grams (the configuration of THIS process is known: PMC_CONFIG_OVERRIDES)
    for key, spec, tu in (('default_enzyme_density', SUBST[6], 'U'), ('default_solid_density', SUBST[0], 'g')):
        if key in cfg and cfg[key] != 'inf':
            n += 1
            try:
                got = U.convert_from(mk(pp, spec), 1, 'mL', tu)
            except Exception as e:  # noqa
                got = type(e).__name__
            if isinstance(got, str) or abs(got - float(cfg[key])) > 1e-9 * float(cfg[key]):
                viols.append(V(f"config | configured-density-not-in-force | key={key}",
                               f"pyplate.yaml sets {key}: {cfg[key]} but 1 mL of {spec[1]} converts to {got!r} {tu}",
                               {'cfg': cfg, 'density_key': key}, float(cfg[key]), got))
    # the specific activity an enzyme is created with, in every spelling of the documented forms (activity per mass, mass per
    # activity, prefixes and a count on either side): equivalent spellings make the same substance (2 mg hold the same activity)
    for cls, want in ((['10 U/mg', '0.1 mg/U', '10000 U/g', '10 kU/g', '0.0001 g/U', '1 g/10 kU', '10 mU/ug', '100 ug/U', '0.01 kU/mg',
                        '1 U/0.1 mg'], 20.0),
                      (['4 U/g', '0.25 g/U', '250 mg/U', '4 mU/mg', '0.004 U/mg', '1 g/4 U'], 0.008)):
        for sp in cls:
            n += 1
            try:
                got = U.convert_from(pp.Substance.enzyme('e', sp), 2, 'mg', 'U')
            except Exception as e:  # noqa
                got = type(e).__name__
            if isinstance(got, str) or abs(got - want) > 1e-9 * want:
                viols.append(V("Substance.enzyme | wrong-specific-activity | spelling=" + ('mass-per-activity' if sp.split('/')[-1].endswith('U')
                                                                                        else 'activity-per-mass'),
                               f"2 mg of Substance.enzyme('e', {sp!r}) hold {got!r} U, the stated specific activity gives {want!r}",
                               {'cfg': cfg, 'enzyme_spelling': sp}, want, got))
    # storage conversions
    pm, pv = ref.storage_prefix(pp, 'mol'), ref.storage_prefix(pp, 'L')
    for p in PREFIXES:
        for base, ps in (('L', pv), ('mol', pm)):
            for x in (0, 1, 2.5, 1e-3, 1234.5):
                n += 2
                try:
                    got = U.convert_to_storage(x, p + base)
                    want = float(F(x) * ref.SI[p] / ps)
                    if abs(got - want) > 1e-10 + 1e-12 * abs(want):
                        viols.append(V(f"Unit.convert_to_storage | wrong-factor | base={base}",
                                       f"convert_to_storage({x}, {p + base!r}) = {got!r}, SI gives {want!r}",
                                       {'cfg': cfg, 'storage': 'to', 'x': x, 'unit': p + base}, want, got))
                    got = U.convert_from_storage(x, p + base)
                    want = float(F(x) * ps / ref.SI[p])
                    if abs(got - want) > 1e-10 + 1e-12 * abs(want):
                        viols.append(V(f"Unit.convert_from_storage | wrong-factor | base={base}",
                                       f"convert_from_storage({x}, {p + base!r}) = {got!r}, SI gives {want!r}",
                                       {'cfg': cfg, 'storage': 'from', 'x': x, 'unit': p + base}, want, got))
                except Exception as e:  # noqa
                    viols.append(V(f"Unit.convert_storage | raises | base={base}",
                                   f"storage conversion of {x} {p + base} raised {type(e).__name__}: {e}",
                                   {'cfg': cfg, 'storage': 'raise', 'x': x, 'unit': p + base}))
    return {'violations': viols, 'classes': sorted(map(list, classes)), 'n': n}


def run(col):
    env.load()
    col.rule = ("complete enumeration: 11 substances (3 solids, 4 liquids, 4 enzymes incl. a g/U one and same-named lots) x "
                "6 amounts x all 41 x 41 prefixed unit pairs for Unit.convert_from (factor, linearity, round trip), "
                "composition over 6 x 41 x 6 unit triples, the string front end, and the storage conversions; repeated under "
                "3 (quick) / 9 (thorough) configurations of the default densities in separate processes. "
                "Non-trivial = distinct (kind, from base, to base, prefix flags, expectation class, config) cells")
    col.assumptions += ["conversions whose source unit cannot measure the substance (infinite density on the source side) "
                        "are don't-care", "prefixed activity units (mU, kU) are enumerated for convert_from only"]
    cfgs = CONFIGS_QUICK if col.tier == 'quick' else CONFIGS_THOROUGH
    procs = [(c, sub.start_in_config('pmc.checks.C06', 'worker', c)) for c in cfgs]
    for c, p in procs:
        r = sub.finish(p, f"C06 {c}")
        col.add(r['violations'])
        col.count('transitions', r['n'])
        col.count('traces', r['n'])
        col.count('evaluations', r['n'])
        col.count('states', len(r['classes']))
        col.note_nontrivial({report.digest((json.dumps(c, sort_keys=True), tuple(k))) for k in r['classes']})
        col.cov.setdefault('configs', []).append({'config': c, 'calls': r['n'], 'cells': len(r['classes'])})
    col.sample({'call': "Unit.convert_from(lipase '10 U/mg', 2.5, 'mg', 'kU')", 'expected_factor': '1e-2'})
    col.sample({'call': "Unit.convert_from(dmso, 7, 'dL', 'mmol')"})


def replay(case):
    r = sub.run_in_config('pmc.checks.C06', 'worker', case.get('cfg') or {})
    return r['violations']
