"""C01 — transfers conserve every substance (invariant over the whole world + frame condition)."""
from .. import alphabets, e1, env, monitors

PID = 'C01'
MONS = [monitors.m_conservation]


def base_states():
    """Seed histories for the wide single-step sweeps: the initial state and two non-initial ones."""
    s0 = e1.seed_history_P()
    s1 = s0 + [alphabets.T('A', 'Q', '30 uL'), {'op': 'remove', 'obj': ['P', "(1, slice(None))"], 'what': 'water'},
               alphabets.T('B', ['Q', "(slice(None), 2)"], '25 uL'), alphabets.T('G', 'E', '40 mg')]
    s2 = s0 + [alphabets.T(['P', "(2, slice(None))"], 'E', '20 uL'), alphabets.T('E', ['Q', "'A:1'"], '15 uL'),
               {'op': 'fill_to', 'obj': ['Q', "(2, slice(None))"], 'solvent': 'tea', 'q': '100 uL'},
               {'op': 'remove', 'obj': 'A', 'what': 'nacl'}]
    return [('S0', s0), ('S1', s1), ('S2', s2)]


def sweeps(col, pp, mons, hdepth_quick=3, hdepth_thorough=4, track_path=False):
    vals = [col.seed % 3] if col.tier == 'quick' else [0, 1, 2]
    for v in vals:
        for name, hist in base_states():
            e1.Explorer(pp, v, e1.W_DEFAULT, hist, alphabets.geometry_sweep(), mons, f'G/{name}',
                        track_path).run(1, col)
        e1.Explorer(pp, v, e1.W_DEFAULT, e1.seed_history_P(), alphabets.unit_sweep(), mons, 'U/S0', track_path).run(1, col)
        # the same geometry sweep with every transfer performed as a single recipe step
        e1.Explorer(pp, v, e1.W_DEFAULT, e1.seed_history_P(), alphabets.geometry_sweep()[::2], mons, 'G/S0/recipe', track_path,
                    via_recipe=True).run(1, col)
        # ... and with every transfer made TWICE through the same operand objects (a slice kept in a variable): the second call
        # is judged against the same pre-state, so a call that re-points or writes through the caller's slice shows as a
        # gain or loss
        e1.Explorer(pp, v, e1.W_DEFAULT, e1.seed_history_P(), alphabets.geometry_sweep()[1::2], mons, 'G/S0/repeat', track_path,
                    repeat=True).run(1, col)
        e1.Explorer(pp, v, e1.W_DEFAULT, e1.seed_history_P() + [alphabets.T('A', 'Q', '30 uL')], alphabets.duplicate_list_sweep(),
                    mons, 'D/duplicate-lists', track_path).run(1, col)
        # multi-well transfers that the first well can serve and a later one cannot (judged if a change lets them return),
        # directly and as a recipe step
        hm = alphabets.mid_refusal_seed(e1.seed_history_P())
        e1.Explorer(pp, v, e1.W_DEFAULT, hm, alphabets.mid_refusal_sweep(), mons, 'M/mid-refusal', track_path).run(1, col)
        e1.Explorer(pp, v, e1.W_DEFAULT, hm, alphabets.mid_refusal_sweep(), mons, 'M/mid-refusal/recipe', track_path,
                    via_recipe=True).run(1, col)
        # two versions of one plate: distinct objects carrying the same name are different plates
        wv = dict(e1.W_DEFAULT, Pv=('plate', '500 uL', 2, 3, 'P'))
        hv = e1.seed_history_P() + [alphabets.T('B', ['Pv', f"({r}, {c})"], f"{10 * (r + c)} uL") for r in (1, 2) for c in (1, 2, 3)]
        vers = [alphabets.T(['Pv', a] if a != 'WHOLE' else 'Pv', ['P', b] if b != 'WHOLE' else 'P', q)
                for a in alphabets.P_SLICES[::2] + ['WHOLE'] for b in alphabets.P_SLICES[1::2] + ['WHOLE', alphabets.P_SLICES[0]]
                for q in ('4 uL', '1 mg')]
        e1.Explorer(pp, v, wv, hv, vers, mons, 'V/same-named-plates', track_path).run(1, col)
        depth = hdepth_quick if col.tier == 'quick' else hdepth_thorough
        e1.Explorer(pp, v, e1.W_DEFAULT, e1.seed_history_P(), alphabets.history_alphabet(), mons, 'H',
                    track_path).run(depth, col)
        # requests for almost everything a source holds (a fraction of 0.9999 ... 0.99999999 of the content in each unit): the
        # amount moved is q, not 'everything'; and vessels with a trace solute of a few femtomoles: it is conserved like the rest
        e1.Explorer(pp, v, e1.W_DEFAULT, e1.seed_history_P(), alphabets.near_whole_sweep(), mons, 'N/near-whole', track_path).run(1, col)
        e1.Explorer(pp, v, alphabets.W_TRACE, [], alphabets.trace_alphabet(), mons, 'X/trace', track_path).run(depth - 1, col)
        # the same number and prefix in another base unit, one request after the other (histories of two)
        e1.Explorer(pp, v, e1.W_DEFAULT, e1.seed_history_P(), alphabets.same_number_alphabet(), mons, 'Y/same-number',
                    track_path).run(2, col)
        # substances that share a name (twins) meet in one vessel: every amount stays with the substance it belongs to
        e1.Explorer(pp, v, alphabets.W_TWIN, alphabets.twin_seed(), alphabets.twin_alphabet(), mons, 'T/twins',
                    track_path).run(depth - 1, col)


def run(col):
    pp = env.load()
    col.rule = ("BFS over operation histories on the real API (state = canonical world contents, 6 decimals); G: every "
                "ordered pair of source/destination forms x 4 units from 3 base states; U: every unit spelling x sizes x "
                "pairing forms; H: 45-action alphabet to depth 3 (quick) / 4 (thorough); T: vessels holding substances that share a "
                "name (twins), 44 actions to depth 2 / 3, totals kept per substance identity (name, kind, parameters), never "
                "through Substance.__eq__. Non-trivial = distinct "
                "(operation, outcome class, operand forms, unit) observation classes")
    col.assumptions += ["valuation selected by VERIF_SEED mod 3 in the quick tier; all three in the thorough tier",
                        "a call that raises is not a transfer and is not judged here (C03/C07 judge refusals)"]
    sweeps(col, pp, MONS)


def replay(case):
    return e1.replay_case(env.load(), case, MONS)
