"""C16 — recipe lifecycle discipline: TLA+ model (TLC state graph) + conformance product search on the real Recipe.

Every edge of TLC's dumped graph is replayed against the implementation.  The search state is the pair
(model state, implementation fingerprint); a call the model refuses must raise the labelled exception class AND
leave the full implementation digest (results, steps, stages, lock, after bake also every tracking answer)
unchanged; a call the model accepts must return, grow `steps` exactly as `nsteps` does and register the name.
"""
import hashlib
import numpy

from .. import env, par, report, tlc_graph
from ..report import V

PID = 'C16'
PLATE = 'P'


# ---- concrete world ---------------------------------------------------------------------------------------
def build_world(pp):
    """Fresh objects for one replay. Any order of accepted steps stays physically feasible (see DESIGN C16)."""
    S = pp.Substance
    water = S.liquid('water', 18.0153, 1.0)
    nacl = S.solid('NaCl', 58.4428)
    absent = S.solid('Na2SO4', 142.04)
    C = pp.Container
    w = {'water': water, 'nacl': nacl, 'absent': absent}
    w['A'] = C('A', initial_contents=[(water, '100 mL'), (nacl, '10 mmol')])
    w['B'] = C('B', '20 mL', [(water, '1 mL')])
    w['U'] = C('U', initial_contents=[(water, '50 mL'), (nacl, '5 mmol')])
    stock = C('stock', initial_contents=[(water, '10 mL')])
    plate = pp.Plate('P', '500 uL', rows=2, columns=2)
    _, plate = pp.Plate.transfer(stock, plate, '100 uL')
    w['P'] = plate
    # stand-ins a user might hold under the names of objects the recipe creates
    w['X'] = C('X', '10 mL', [(water, '2 mL')])
    w['S'] = C('S', initial_contents=[(water, '2 mL'), (nacl, '1 mmol')])
    w['F'] = C('F', initial_contents=[(water, '2 mL'), (nacl, '0.002 mmol')])
    return w


def _obj(w, handles, name, form=None):
    o = handles.get(name, w[name])
    if form and form != 'whole':
        return o[eval(form, {'__builtins__': {}, 'slice': slice})]
    return o


FILL_BASE = {'B': (5, 2, 'mL'), 'X': (3, 1, 'mL'), 'S': (3, 1, 'mL'), 'F': (3, 1, 'mL'), 'P': (200, 50, 'uL'),
             'A': (200, 10, 'mL'), 'U': (200, 10, 'mL')}
DILUTE_C = ['0.05 M', '0.02 M', '0.01 M', '0.005 M', '0.002 M', '0.001 M']


def do_call(pp, w, handles, recipe, call):
    """Perform one concrete call on the live recipe. Returns the outcome class."""
    op = call[0]
    try:
        if op == 'uses':
            o = w[call[1]]                    # always the outside object / stand-in
            form = call[2] if len(call) > 2 else 'arg'
            if form == 'arg':
                recipe.uses(o)
            elif form == 'list':
                recipe.uses([o])
            elif form == 'tuple':
                recipe.uses((o,))
            else:
                recipe.uses(x for x in [o])
        elif op == 'create_container':
            handles[call[1]] = recipe.create_container(call[1], '10 mL', [(w['water'], '2 mL')])
        elif op == 'create_solution':
            name, solvent = call[1], call[2]
            if solvent is None:
                h = recipe.create_solution(w['nacl'], w['water'], name=name, concentration='0.5 M', total_quantity='2 mL')
            else:
                h = recipe.create_solution(w['nacl'], _obj(w, handles, solvent), name=name, quantity='10 mg',
                                           total_quantity='2 mL')
            handles[name] = h
        elif op == 'create_solution_from':
            name, source = call[1], call[2]
            handles[name] = recipe.create_solution_from(_obj(w, handles, source), w['nacl'], '0.0005 M', w['water'],
                                                        '2 mL', name=name)
        elif op == 'remove':
            recipe.remove(_obj(w, handles, call[1], call[2]), w['absent'])
        elif op == 'fill_to':
            base, inc, unit = FILL_BASE[call[1]]
            recipe.fill_to(_obj(w, handles, call[1], call[2]), w['water'], f"{base + inc * call[3]} {unit}")
        elif op == 'dilute':
            recipe.dilute(_obj(w, handles, call[1]), w['nacl'], DILUTE_C[call[2]], w['water'],
                          *((call[1] + '-diluted',) if len(call) > 3 else ()))          # variant: renamed by the step
        elif op == 'transfer':
            recipe.transfer(_obj(w, handles, call[1], call[2]), _obj(w, handles, call[3], call[4]), '10 uL')
        elif op == 'bad':
            # arguments the recipe rejects at call time; the source / object is the big stock A (declared or not)
            k, A, nacl, water = call[1], _obj(w, handles, 'A'), w['nacl'], w['water']
            if k == 'csf-unreachable':
                recipe.create_solution_from(A, nacl, '40 M', water, '1 mL', name='F')
            elif k == 'csf-zero':
                recipe.create_solution_from(A, nacl, '0 M', water, '1 mL', name='F')
            elif k == 'csf-unit':
                recipe.create_solution_from(A, nacl, '1 xM', water, '1 mL', name='F')
            elif k == 'csf-quantity':
                recipe.create_solution_from(A, nacl, '0.0005 M', water, '1 xL', name='F')
            elif k == 'cs-three':
                recipe.create_solution(nacl, water, name='S', concentration='0.5 M', quantity='10 mg', total_quantity='2 mL')
            elif k == 'cs-one':
                recipe.create_solution(nacl, water, name='S', concentration='0.5 M')
            elif k == 'cc-unit':
                recipe.create_container('X', '5 xL')
            elif k == 'cc-negative':
                recipe.create_container('X', '-5 mL')
            elif k == 'dilute-unit':
                recipe.dilute(A, nacl, '1 xM', water)
            elif k.startswith('impostor-'):
                # an object of the wrong kind that carries the NAME of the stock (a Substance 'A' next to the Container 'A' - the
                # destination was forgotten): a recipe accepts only the objects declared to it, whatever they are called.
                # Refusing with TypeError or ValueError is the same refusal.
                imp = pp.Substance.liquid('A', 18.0153, 1.0)
                try:
                    if k == 'impostor-remove':
                        recipe.remove(imp, w['absent'])
                    elif k == 'impostor-fill_to':
                        recipe.fill_to(imp, water, '12 mL')
                    elif k == 'impostor-dilute':
                        recipe.dilute(imp, nacl, DILUTE_C[0], water)
                    elif k == 'impostor-source':
                        recipe.transfer(imp, A, '10 uL')
                    else:
                        recipe.transfer(A, imp, '10 uL')
                except TypeError as e:
                    raise ValueError(str(e))
            else:
                raise env.InternalError(f"unknown bad call {k}")
        elif op == 'start_stage':
            recipe.start_stage(call[1])
        elif op == 'end_stage':
            recipe.end_stage(call[1])
        elif op == 'bake':
            recipe.bake()
        else:
            raise env.InternalError(f"unknown call {call}")
        return 'ok'
    except env.InternalError:
        raise
    except RuntimeError as e:
        return 'RuntimeError'
    except ValueError as e:
        return 'ValueError'
    except Exception as e:  # noqa
        return type(e).__name__


def rebuild(pp, path):
    env.clear_caches(pp)
    w = build_world(pp)
    handles = {}
    recipe = pp.Recipe()
    for call in path:
        do_call(pp, w, handles, recipe, call)
    return w, handles, recipe


def eager_feasible(pp, path):
    """Do the accepted steps of `path` succeed when performed eagerly through Container / Plate on the current objects?
    Used only to tell a physical refusal at bake (C03's business: not a lifecycle matter) from a lifecycle failure."""
    env.clear_caches(pp)
    w = build_world(pp)
    cur = {}

    def get(name, form=None):
        o = cur.get(name, w[name])
        if form and form != 'whole':
            return o[eval(form, {'__builtins__': {}, 'slice': slice})]
        return o
    try:
        for call in path:
            op = call[0]
            if op == 'create_container':
                cur[call[1]] = pp.Container(call[1], '10 mL', [(w['water'], '2 mL')])
            elif op == 'create_solution':
                if call[2] is None:
                    cur[call[1]] = pp.Container.create_solution(w['nacl'], w['water'], call[1], concentration='0.5 M',
                                                                total_quantity='2 mL')
                else:
                    cur[call[2]], cur[call[1]] = pp.Container.create_solution(w['nacl'], get(call[2]), call[1], quantity='10 mg',
                                                                              total_quantity='2 mL')
            elif op == 'create_solution_from':
                cur[call[2]], cur[call[1]] = pp.Container.create_solution_from(get(call[2]), w['nacl'], '0.0005 M', w['water'],
                                                                               '2 mL', call[1])
            elif op == 'remove':
                cur[call[1]] = get(call[1], call[2]).remove(w['absent'])
            elif op == 'fill_to':
                base, inc, unit = FILL_BASE[call[1]]
                # a recipe fill_to fills the whole object (known finding for slices): feasibility is judged on that
                cur[call[1]] = get(call[1]).fill_to(w['water'], f"{base + inc * call[3]} {unit}")
            elif op == 'dilute':
                cur[call[1]] = get(call[1]).dilute(w['nacl'], DILUTE_C[call[2]], w['water'])
            elif op == 'transfer':
                src, dst = get(call[1], call[2]), get(call[3], call[4])
                fn = pp.Plate.transfer if call[3] == PLATE else pp.Container.transfer
                a, b = fn(src, dst, '10 uL')
                cur[call[1]], cur[call[3]] = a, b
    except ValueError:
        return False
    except Exception:  # noqa
        return False
    return True


# ---- implementation fingerprints ---------------------------------------------------------------------------
def _contents(c):
    return tuple(sorted((s.name, round(a, 6)) for s, a in c.contents.items()))


def _objdig(o):
    if hasattr(o, 'wells'):
        return ('plate', o.name, tuple(_contents(wl) for wl in o.wells.flatten()))
    if hasattr(o, 'contents'):
        return ('container', o.name, _contents(o), o.max_volume)
    return ('other', repr(type(o)))


def _norm(x):
    if isinstance(x, numpy.ndarray):
        return ('arr', tuple(numpy.asarray(x, dtype=float).round(9).flatten().tolist()))
    if isinstance(x, dict):
        return tuple((k, _norm(v)) for k, v in sorted(x.items()))
    if isinstance(x, float):
        return round(x, 9)
    return x


def _tracking(pp, w, recipe):
    out = []
    subs = [w['water'], w['nacl']]
    for stage in sorted(recipe.stages):
        for name in sorted(recipe.results):
            obj = recipe.results[name]
            for label, fn in (
                    ('used_w', lambda: recipe.get_substance_used(subs[0], stage, destinations=[obj])),
                    ('used_s', lambda: recipe.get_substance_used(subs[1], stage, 'mmol', destinations=[obj])),
                    ('flows', lambda: recipe.get_container_flows(obj, stage, 'uL')),
                    ('rem_a', lambda: recipe.get_amount_remaining(obj, stage, 'uL', 'after')),
                    ('rem_b', lambda: recipe.get_amount_remaining(obj, stage, 'mg', 'before'))):
                try:
                    out.append((stage, name, label, _norm(fn())))
                except Exception as e:  # noqa
                    out.append((stage, name, label, 'raises ' + type(e).__name__))
        try:
            out.append((stage, 'plates', _norm(recipe.get_substance_used(subs[0], stage))))
        except Exception as e:  # noqa
            out.append((stage, 'plates', 'raises ' + type(e).__name__))
    return tuple(out)


def lifecycle_fp(recipe):
    """The coarse fingerprint that identifies an implementation state in the product search."""
    stages = tuple(sorted((k, (v.start, v.stop)) for k, v in recipe.stages.items()))
    return (tuple(sorted(recipe.results)), len(recipe.steps), stages, recipe.current_stage, bool(recipe.locked))


def full_digest(pp, w, recipe):
    """Everything observable about the recipe; a refused call must leave it unchanged."""
    parts = [lifecycle_fp(recipe), tuple(s.operator for s in recipe.steps),
             # everything else the object carries (e.g. where the open stage started): a refused call must not touch it
             tuple(sorted((k, repr(v)) for k, v in vars(recipe).items()
                          if k not in ('results', 'steps', 'stages', 'used')
                          and not (k == 'current_stage_start' and recipe.current_stage == 'all'))),
             tuple(sorted((k, _objdig(v)) for k, v in recipe.results.items())),
             # the step records (what tracking reads): a refused call, a refused bake included, must not touch them
             tuple((len(s.frm), len(s.to), tuple(sorted((x.name, round(a, 6)) for x, a in s.trash.items())),
                    tuple(sorted(map(str, s.objects_used))), s.instructions) for s in recipe.steps)]
    if recipe.locked:
        parts.append(_tracking(pp, w, recipe))
    return hashlib.blake2b(repr(parts).encode(), digest_size=16).hexdigest()


# ---- concretisation of model actions ----------------------------------------------------------------------
SLICES = ['whole', "(1, slice(None))", "'A:1'"]


def variants(action, args, nsteps):
    """All concrete calls for a model action; variant 0..n, all must show the labelled outcome."""
    k = nsteps
    if action in ('Uses', 'ClashUses'):
        return [('uses', args[0], f) for f in ('arg', 'list', 'tuple', 'generator')]
    if action == 'ClashCreate':
        n = args[0]
        return [('create_container', n), ('create_solution', n, None), ('create_solution_from', n, 'A')]
    if action == 'Create':
        n, reads = args[0], sorted(args[1])
        if n == 'X':
            return [('create_container', n)]
        if n == 'S':
            return [('create_solution', n, reads[0] if reads else None)]
        if n == 'F':
            return [('create_solution_from', n, reads[0])]
    if action == 'Step':
        (o,) = sorted(args[0])
        if o == PLATE:
            return [('remove', o, 'whole'), ('fill_to', o, 'whole', k), ('remove', o, SLICES[1]),
                    ('fill_to', o, SLICES[2], k)]
        if o == 'A':
            return [('remove', o, None), ('dilute', o, k), ('dilute', o, k, 'rename')]
        return [('remove', o, None), ('fill_to', o, None, k), ('dilute', o, k), ('dilute', o, k, 'rename')]
    if action == 'Transfer':
        o, p = args
        sf = SLICES if o == PLATE else [None]
        df = SLICES if p == PLATE else [None]
        return [('transfer', o, a, p, b) for a in sf for b in df]
    if action == 'StartStage':
        return [('start_stage', args[0])]
    if action == 'StartReserved':
        return [('start_stage', 'all')]
    if action == 'EndStage':
        return [('end_stage', args[0])]
    if action == 'BadArgs':
        if args[0] == 'create':
            return [('bad', k) for k in ('csf-unreachable', 'csf-zero', 'csf-unit', 'csf-quantity', 'cs-three', 'cs-one',
                                         'cc-unit', 'cc-negative')]
        return [('bad', k) for k in ('dilute-unit', 'impostor-remove', 'impostor-fill_to', 'impostor-dilute', 'impostor-source',
                                     'impostor-destination')]
    if action == 'Bake':
        return [('bake',)]
    raise env.InternalError(f"no concretisation for {action}{args}")


def feasible_for_continuation(call):
    """Only calls whose later execution at bake is physically feasible in every order are kept on a path."""
    if call[0] == 'dilute':
        return call[1] == 'A'
    if call[0] == 'fill_to':
        return call[1] != 'A'
    return True


def roles(call, mstate):
    names = []
    if call[0] in ('uses', 'remove', 'fill_to', 'dilute'):
        names = [call[1]]
    elif call[0] == 'transfer':
        names = [call[1], call[3]]
    elif call[0] in ('create_solution', 'create_solution_from'):
        names = [call[2]] if call[2] else []
    return '+'.join('declared' if n in mstate['declared'] else 'undeclared' for n in names) or '-'


def sig(call, mstate, kind, expected, observed):
    return (f"Recipe.{call[0]} | {kind} | args={roles(call, mstate)},phase={mstate['phase']},"
            f"expected={expected},observed={observed}")


# ---- one transition --------------------------------------------------------------------------------------
def check_edge(pp, path, call, mstate, mtarget, live=None):
    """Execute `call` after `path`. Returns (violations, successor lifecycle fp or None, live-state-still-clean)."""
    expected = mtarget['last']
    if live is None:
        w, handles, recipe = rebuild(pp, path)
    else:
        w, handles, recipe = live
    refused = expected != 'ok'
    before = full_digest(pp, w, recipe) if refused else None
    nsteps_before = len(recipe.steps)
    observed = do_call(pp, w, handles, recipe, call)
    case = {'path': path, 'call': call, 'model_state': _ms(mstate), 'model_target': _ms(mtarget)}
    vs = []
    if observed != expected and call[0] == 'bake' and expected == 'ok' and observed == 'ValueError' and \
            not eager_feasible(pp, path):
        # the steps cannot be carried out physically on this tree: bake's refusal is C03's matter, not a lifecycle failure
        return [], None, False
    if observed != expected:
        vs.append(V(sig(call, mstate, 'lifecycle-outcome', expected, observed),
                    f"after {len(path)} call(s), recipe.{call[0]}{tuple(call[1:])} must "
                    f"{'return' if expected == 'ok' else 'raise ' + expected} but "
                    f"{'returned' if observed == 'ok' else 'raised ' + observed}",
                    case, expected, observed))
        return vs, None, False
    if refused:
        after = full_digest(pp, w, recipe)
        if after != before:
            kind = 'changed-after-bake' if mstate['phase'] == 'locked' else 'refused-call-changed-state'
            vs.append(V(sig(call, mstate, kind, expected, observed),
                        f"recipe.{call[0]}{tuple(call[1:])} raised {observed} but changed the recipe's observable state",
                        case, 'state unchanged', 'state changed'))
            return vs, None, False
        return vs, lifecycle_fp(recipe), True
    # accepted
    grew = len(recipe.steps) - nsteps_before
    want = mtarget['nsteps'] - mstate['nsteps']
    if grew != want:
        vs.append(V(sig(call, mstate, 'step-count', want, grew),
                    f"recipe.{call[0]} accepted: len(steps) grew by {grew}, model says {want}", case, want, grew))
    keys = set(recipe.results)
    if keys != set(mtarget['declared']):
        vs.append(V(sig(call, mstate, 'declared-names', 'model', 'differs'),
                    f"after recipe.{call[0]} the recipe knows {sorted(keys)}, model says {sorted(mtarget['declared'])}",
                    case, sorted(mtarget['declared']), sorted(keys)))
    want_open = 'all' if mtarget['open'] == 'none' else mtarget['open']
    if recipe.current_stage != want_open:
        vs.append(V(sig(call, mstate, 'open-stage', want_open, recipe.current_stage),
                    f"open stage is {recipe.current_stage!r}, model says {want_open!r}", case))
    want_stages = {'all': (None, None)}
    for (s, a, b) in mtarget['closed']:
        want_stages[s] = (a, b)
    got_stages = {k: (v.start, v.stop) for k, v in recipe.stages.items()}
    if got_stages != want_stages:
        vs.append(V(sig(call, mstate, 'stages', 'model', 'differs'),
                    f"after recipe.{call[0]} stages are {got_stages}, model says {want_stages}", case,
                    want_stages, got_stages))
    if bool(recipe.locked) != (mtarget['phase'] == 'locked'):
        vs.append(V(sig(call, mstate, 'lock-flag', mtarget['phase'], recipe.locked),
                    f"locked={recipe.locked} but model phase is {mtarget['phase']}", case))
    if call[0] == 'bake':
        bad = [k for k, v in recipe.results.items() if not isinstance(v, (pp.Container, pp.Plate))]
        if bad:
            vs.append(V(sig(call, mstate, 'bake-result-type', 'Container|Plate', 'other'),
                        f"bake returned non-value objects under {bad}", case))
    return vs, (lifecycle_fp(recipe) if not vs else None), False


def _ms(m):
    return {k: (sorted(map(list, v)) if k == 'closed' else sorted(v) if isinstance(v, frozenset) else v)
            for k, v in m.items()}


_G = {}


def _process(item):
    """Worker: one product state. item = (model state id, path). Returns per-edge results."""
    sid, path = item
    pp = _G['pp']
    states, out_edges = _G['states'], _G['out']
    mstate = states[sid]
    results = []      # (edge index, succ fp or None, continuation call or None)
    viols = []
    counts = {'impl_calls': 0, 'rebuilds': 0}
    live = None
    for ei, (action, args, dst) in out_edges.get(sid, ()):  # canonical (dump) order
        mtarget = states[dst]
        vars_ = variants(action, args, mstate['nsteps'])
        accepted = mtarget['last'] == 'ok'
        cont = None
        if accepted:
            feas = [c for c in vars_ if feasible_for_continuation(c)]
            cont = feas[(mstate['nsteps'] + len(path)) % len(feas)]
        fp_out = None
        ok_edge = True
        for call in vars_:
            if accepted:
                vs, fp, _ = check_edge(pp, path, call, mstate, mtarget)
                counts['rebuilds'] += 1
            else:
                if live is None:
                    live = rebuild(pp, path)
                    counts['rebuilds'] += 1
                vs, fp, clean = check_edge(pp, path, call, mstate, mtarget, live)
                if not clean:
                    live = None
            counts['impl_calls'] += 1
            if vs:
                viols.extend(vs)
                ok_edge = False
            if call == cont or (not accepted and fp_out is None):
                fp_out = fp
        if not ok_edge:
            fp_out = None
        results.append((ei, fp_out, list(cont) if cont else None))
    return sid, results, viols, counts


def run(col):
    pp = env.load()
    cfgs = ['quick.cfg'] if col.tier == 'quick' else ['thorough_a.cfg', 'thorough_b.cfg']
    col.rule = ("model states/edges enumerated by TLC on models/RecipeLifecycle.tla; every edge replayed on the real "
                "pyplate.Recipe by a product search over (model state, implementation fingerprint); non-trivial = "
                "distinct (model state, fingerprint) pairs from which every outgoing edge was executed")
    col.assumptions += [
        "bounds: objects/stage names/MaxSteps as in models/*.cfg; a step-adding call beyond MaxSteps is not explored",
        "concrete arguments are chosen so that every order of accepted steps is physically feasible (DESIGN C16)",
        "a refused bake (a declared object unused) is a refused call like any other: it must leave the recipe unchanged, "
        "so that the recipe can be completed and baked later",
    ]
    for cfg in cfgs:
        _run_cfg(col, pp, cfg)


def _core(m):
    return tuple((k, m[k]) for k in sorted(m) if k != 'last')


def _run_cfg(col, pp, cfg):
    states, edges, init, stats = tlc_graph.run_tlc(cfg)
    # Model states that differ only in `last` (the outcome of the previous call) have identical futures; a refused
    # call is verified to leave the implementation's full digest unchanged, so replaying the edges of one
    # representative per class from that implementation state replays them for the whole class.  The isomorphism
    # is checked here, not assumed.
    core_of = {sid: _core(m) for sid, m in states.items()}
    out = {}
    for i, (src, action, args, dst) in enumerate(edges):
        out.setdefault(src, []).append((i, (action, args, dst)))
    rep, shape = {}, {}
    for sid in states:
        sh = sorted((a, repr(g), repr(core_of[d]), states[d]['last']) for _, (a, g, d) in out.get(sid, ()))
        c = core_of[sid]
        if c in shape:
            if shape[c] != sh:
                raise env.InternalError("model states equal up to `last` have different outgoing edges")
        else:
            shape[c], rep[c] = sh, sid
    _G.update(pp=pp, states=states, out=out)
    covered = set()      # (core(src), action, args) executed on the implementation
    seen = set()
    w, h, r = rebuild(pp, [])
    frontier = [(rep[core_of[init]], [])]
    seen.add((core_of[init], lifecycle_fp(r)))
    fps_per_core = {core_of[init]: {lifecycle_fp(r)}}
    level = 0
    transitions = 0
    calls0 = col.counters['impl_calls']
    while frontier:
        res = par.pmap(_process, frontier, chunk=max(1, min(64, len(frontier) // (env.nprocs() * 4) or 1)))
        nxt = []
        for (sid, path), (_, results, viols, counts) in zip(frontier, res):
            col.add(viols)
            col.merge_counts(counts)
            for ei, fp, cont in results:
                transitions += 1
                src, action, args, dst = edges[ei]
                if fp is None:
                    continue
                covered.add((core_of[src], action, args))
                key = (core_of[dst], fp)
                if key in seen:
                    continue
                seen.add(key)
                fps_per_core.setdefault(core_of[dst], set()).add(fp)
                nxt.append((rep[core_of[dst]], path + [cont] if cont is not None else path))
        if level in (2, 5, 8) and frontier:
            mid = frontier[len(frontier) // 2]
            col.sample({'cfg': cfg, 'level': level, 'calls': mid[1], 'model_state': _ms(states[mid[0]])})
        frontier = nxt
        level += 1
    n_cov = sum(1 for (src, action, args, dst) in edges if (core_of[src], action, args) in covered)
    multi = sum(1 for f in fps_per_core.values() if len(f) > 1)
    col.count('states', len(states))
    col.count('transitions', col.counters['impl_calls'] - calls0)
    col.count('traces', n_cov)
    col.count('evaluations', transitions)
    col.note_nontrivial({report.digest((cfg, k)) for k in seen})
    col.cov.setdefault('per_cfg', []).append({
        **stats, 'model_states': len(states), 'model_edges': len(edges), 'model_edges_covered_on_impl': n_cov,
        'edge_coverage': round(n_cov / len(edges), 6), 'model_state_classes_up_to_last': len(rep),
        'product_states': len(seen), 'classes_reached': len(fps_per_core),
        'classes_with_several_impl_fingerprints': multi, 'search_levels': level})
    if n_cov != len(edges):
        col.exhaustive = False


def replay(case):
    pp = env.load()
    vs, _, _ = check_edge(pp, case['path'], case['call'],
                          _unms(case['model_state']), _unms(case['model_target']))
    return vs


def _unms(m):
    out = dict(m)
    for k in ('declared', 'touched'):
        out[k] = frozenset(out[k])
    out['closed'] = frozenset(tuple(c) for c in out['closed'])
    return out
