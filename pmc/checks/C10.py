"""C10 — reported volume, amounts and concentrations always agree with contents (observer monitor on every state)."""
from .. import alphabets, e1, env, monitors
from . import C03

PID = 'C10'
MONS = [monitors.m_observers]


def seeds_ok(col, pp, vidx):
    """Observers of the seed state itself (constructor-built containers, empty plate wells)."""
    subs, world = e1.build(pp, vidx, e1.W_DEFAULT, e1.seed_history_P())
    case = {'vidx': vidx, 'seed_state': True}
    for n, o in sorted(world.items()):
        if e1.is_plate(o):
            for w in o.wells.flatten():
                col.add(monitors.check_container_observers(pp, subs, w, f"seed {n}/{w.name}", case))
            col.add(monitors.check_plate_observers(pp, subs, o, f"seed {n}", case))
        else:
            col.add(monitors.check_container_observers(pp, subs, o, f"seed {n}", case))
    # a world in which substances that share a name (twins) sit next to each other, in containers and in the wells of one plate
    subs, world = e1.build(pp, vidx, alphabets.W_TWIN, alphabets.twin_seed() + [alphabets.T('T', ['R', "(1, 1)"], '40 uL')])
    for n, o in sorted(world.items()):
        if e1.is_plate(o):
            col.add(monitors.check_plate_observers(pp, subs, o, f"twin world {n}", case))
            for w in o.wells.flatten():
                col.add(monitors.check_container_observers(pp, subs, w, f"twin world {n}/{w.name}", case))
        else:
            col.add(monitors.check_container_observers(pp, subs, o, f"twin world {n}", case))


def run(col):
    pp = env.load()
    col.rule = ("after every transition of the full-menu BFS (depth 2 quick / 3 thorough) and of the geometry sweep, every "
                "changed container / well / plate is observed: stored volume vs contents, get_volume in 7 units, "
                "get_concentration for 6 substances (present or absent) x 26 unit spellings, Plate/slice get_volumes "
                "(None | substance | list) x 3 units, get_moles x 4 units, get_volume, get_substances; each compared with "
                "the exact-rational definition at the observer's rounding. Non-trivial = distinct observation classes")
    col.assumptions += ["the implementation rounds a volume in litres to 1e-10 before dividing: per-litre concentrations "
                        "of small wells are compared with the corresponding relative tolerance (1e-10 L / volume)"]
    vals = [col.seed % 3] if col.tier == 'quick' else [0, 1, 2]
    for v in vals:
        seeds_ok(col, pp, v)
        alpha = [a for a in C03.full_alphabet()]
        e1.Explorer(pp, v, e1.W_DEFAULT, e1.seed_history_P(), alpha, MONS, 'F').run(2 if col.tier == 'quick' else 3, col)
        e1.Explorer(pp, v, e1.W_DEFAULT, e1.seed_history_P(), alphabets.geometry_sweep(), MONS, 'G/S0').run(1, col)
        e1.Explorer(pp, v, e1.W_DEFAULT, e1.seed_history_P(), alphabets.unit_sweep(), MONS, 'U/S0').run(1, col)


def replay(case):
    pp = env.load()
    if case.get('seed_state'):
        from .. import report
        col = report.Collector(PID, 'quick', 0)
        seeds_ok(col, pp, case['vidx'])
        return col.violations
    return e1.replay_case(pp, case, MONS)
