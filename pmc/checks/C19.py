"""C19 — instructions and human-readable quantities state the true amounts (token extractor vs true deltas)."""
import re
from fractions import Fraction as F

from .. import alphabets, e1, e2, env, par, ref, report
from ..report import V

PID = 'C19'
T = alphabets.T
TOKEN = re.compile(r"(?<![\w.])(-?\d+(?:\.\d+)?(?:e[+-]?\d+)?) (n|u|µ|m|c|d|da|k|M)?(mol|L|g|U)\b(?: of '?([A-Za-z0-9_]+)'?)?")


# ---- (a) rescaling helpers ------------------------------------------------------------------------------------------
def rescaling(pp):
    viols, n = [], 0
    U = pp.Unit
    for e in range(-12, 7):
        for m in (1.0, 2.5, 9.99):
            for sign in (1, -1):
                x = sign * m * 10.0 ** e
                for unit in ('L', 'mol', 'g', 'U', 'mL', 'umol', 'mg', 'uL'):
                    n += 1
                    try:
                        v, u = U.get_human_readable_unit(x, unit)
                        pf, base = ref.split_unit(u)
                        ok = base == ref.split_unit(unit)[1] and u[:-len(base)] in ('', 'm', 'u') and \
                            abs(v * float(pf) - abs(x)) <= 1e-12 * abs(x)
                        got = (v, u)
                    except Exception as ex:  # noqa
                        ok, got = False, f"{type(ex).__name__}: {ex}"
                    if not ok:
                        cls = 'below-1e-6' if abs(x) < 1e-6 else 'above-1' if abs(x) >= 1 else 'between'
                        viols.append(V(f"Unit.get_human_readable_unit | rescaling-changes-amount | magnitude={cls}",
                                       f"get_human_readable_unit({x!r}, {unit!r}) = {got!r}: not the same amount "
                                       f"(the value is in the base unit of {unit!r})", {'family': 'rescale', 'x': x, 'unit': unit}))
    subs = e1.substances(pp, 0)
    cont = pp.Container('c', '1 L')
    pm, pv = float(ref.storage_prefix(pp, 'mol')), float(ref.storage_prefix(pp, 'L'))
    for e in range(-9, 9):
        for m in (1.0, 2.5, 9.99):
            q = m * 10.0 ** e
            for what in (subs['water'], subs['nacl'], subs['lipase'], cont):
                n += 1
                v, u = U.convert_from_storage_to_standard_format(what, q)
                pf, base = ref.split_unit(u)
                if what is cont:
                    want, wbase = q * pv, 'L'
                else:
                    rs = ref.rsub(what)
                    wbase = 'U' if rs.kind == 'enzyme' else 'g' if rs.kind == 'solid' else 'L'
                    want = float(ref.base_amount(pp, rs, q) * ref.per_base(rs, wbase))
                if base != wbase or u[:-len(base)] not in ('', 'm', 'u') or abs(v * float(pf) - want) > 1e-9 * want + 1e-10 * float(pf):
                    kind = 'container' if what is cont else ref.rsub(what).kind
                    viols.append(V(f"Unit.convert_from_storage_to_standard_format | rescaling-changes-amount | kind={kind}",
                                   f"convert_from_storage_to_standard_format({kind}, {q!r}) = ({v!r}, {u!r}); the stored amount is "
                                   f"{want!r} {wbase}", {'family': 'rescale', 'x': q, 'unit': kind}, want, [v, u]))
    return viols, n


# ---- token oracle ---------------------------------------------------------------------------------------------------
def decimals(s):
    if 'e' in s:
        return 12
    return len(s.split('.')[1]) if '.' in s else 0


def candidates(pp, subs, before, after, extra=()):
    """True amounts of one operation: for every substance and every involved container/well the change and the
    amount present afterwards, totals (volume, mass, moles, activity) changed / present, capacities, requested values.
    Returned as list of (base unit, value in base units, name or None)."""
    out = list(extra)
    for b, a in zip(before, after):
        bc = b.contents if b is not None else {}
        ac = a.contents if a is not None else {}
        # 'what it holds afterwards' is a plausible reading only for an object that received something
        gained = sum(ac.values()) > sum(bc.values()) or b is None
        for s in set(bc) | set(ac):
            rs = ref.rsub(s)
            d = abs(ac.get(s, 0.0) - bc.get(s, 0.0))
            for base in ('L', 'g', 'mol', 'U'):
                pb = ref.per_base(rs, base)
                if pb:
                    out.append((base, float(ref.base_amount(pp, rs, d) * pb), s.name))
                    if gained:
                        out.append((base, float(ref.base_amount(pp, rs, ac.get(s, 0.0)) * pb), s.name))
        for base in ('L', 'g', 'mol', 'U'):
            tb, ta = float(ref.measure(pp, bc, base)), float(ref.measure(pp, ac, base))
            for nm in (None, getattr(a if a is not None else b, 'name', None)):
                out.append((base, abs(ta - tb), nm))
                if gained:
                    out.append((base, ta, nm))
        obj = a if a is not None else b
        if obj is not None and obj.max_volume != float('inf'):
            out.append(('L', obj.max_volume * float(ref.storage_prefix(pp, 'L')), None))
    # what a created or receiving container got as PURE substance: its gain minus what the other containers lost
    lost = {}
    for b, a in zip(before, after):
        if b is not None and a is not None:
            for s, x in b.contents.items():
                if x - a.contents.get(s, 0.0) > 0:
                    lost[s] = lost.get(s, 0.0) + x - a.contents.get(s, 0.0)
    for b, a in zip(before, after):
        if a is None:
            continue
        for s, x in a.contents.items():
            gain = x - (b.contents.get(s, 0.0) if b is not None else 0.0)
            pure = gain - lost.get(s, 0.0)
            if gain > 0 and pure > 1e-9:
                rs = ref.rsub(s)
                for base in ('L', 'g', 'mol', 'U'):
                    pb = ref.per_base(rs, base)
                    if pb:
                        out.append((base, float(ref.base_amount(pp, rs, pure) * pb), s.name))
    # 'nothing' is a true amount only of an operation that changed nothing: the zeros contributed by substances and objects that
    # the operation did not touch are withdrawn (they used to let 'by adding 0 L' pass for a step that added 3 mL)
    n_extra = len(extra)
    any_change = any((b.contents if b is not None else {}) != (a.contents if a is not None else {}) and
                     any(abs((a.contents if a is not None else {}).get(s, 0.0) - (b.contents if b is not None else {}).get(s, 0.0)) > 0
                         for s in set(b.contents if b is not None else {}) | set(a.contents if a is not None else {}))
                     for b, a in zip(before, after))
    if any_change:
        out = list(out[:n_extra]) + [c for c in out[n_extra:] if c[1] != 0.0]
    # a substance that changed but has no measure in a unit (an enzyme in moles; a substance without volume in litres): its
    # amount in that unit is truly zero
    for b, a in zip(before, after):
        bc = b.contents if b is not None else {}
        ac = a.contents if a is not None else {}
        for s in set(bc) | set(ac):
            if ac.get(s, 0.0) != bc.get(s, 0.0):
                rs = ref.rsub(s)
                for base in ('L', 'g', 'mol', 'U'):
                    if not ref.per_base(rs, base):
                        out.append((base, 0.0, s.name))
    return out


def check_text(pp, text, cands, names, where, case, feat):
    """Every '<number> <prefix><unit>[ of <name>]' token must be one of the true amounts at its displayed precision."""
    vs, ntok = [], 0
    for m in TOKEN.finditer(text):
        num, prefix, base, name = m.group(1), m.group(2) or '', m.group(3), m.group(4)
        if name is not None and name not in names:
            name = None                 # e.g. '2 mL of a 0.05 M solution'
        ntok += 1
        val = float(num) * float(ref.SI[prefix])
        # round(x, 0) prints '123.0': the displayed precision is the smaller of the printed and the configured decimals
        pr = pp.config.precisions
        d = min(decimals(num), pr[prefix + base] if prefix + base in pr else pr['default'])
        tol = 0.5 * 10.0 ** -d * float(ref.SI[prefix]) * 1.0001
        if val == 0:
            # the texts rescale to milli / micro units: a correct rendering of 3 mL is '3.0 mL', never '0 L'. A printed zero stands for
            # less than one micro-unit
            tol = min(tol, 1e-6)
        ok = any(cb == base and (name is None or cn == name) and abs(val - cv) <= tol + 1e-7 * abs(cv) for cb, cv, cn in cands)
        if not ok:
            near = sorted(((abs(val - cv), cv, cn) for cb, cv, cn in cands if cb == base and (name is None or cn == name)),
                          key=lambda t: t[0])[:2]
            vs.append(V(f"instructions | instruction-amount | {feat}",
                        f"{where}: the text says {m.group(0)!r} but no amount of this operation matches (closest true values in "
                        f"{base}: {[(round(c, 12), n) for _, c, n in near]}); full text: {text!r}", case, None, m.group(0)))
            break
    return vs, ntok


def requested(*strings):
    out = []
    for s in strings:
        try:
            v, b = ref.parse_quantity(s)
            if b in ('L', 'g', 'mol', 'U'):
                out.append((b, float(v), None))
        except ValueError:
            pass
    return out


# ---- (b) direct operations ------------------------------------------------------------------------------------------
W = {'A': ('container', 'inf L', [('water', '2 L'), ('nacl', '0.2 mol'), ('lipase', '20 U')]),
     'G': ('container', 'inf L', [('nacl', '30 g'), ('na2so4', '12 g')]),
     'Z': ('container', 'inf L', [('lipase', '5000 U')]),
     'L': ('container', 'inf L', [('dmso', '1.5 L')]),
     'D': ('container', 'inf L', []), 'K': ('container', '250 mL', [('water', '20 mL'), ('nacl', '10 mmol')]),
     'R': ('plate', '1 mL', 2, 2), 'R2': ('plate', '1 mL', 2, 2)}
PLATE_SEED = [T('K', 'R', '300 uL'), T('L', ['R', "(1, slice(None))"], '50 uL'), T('K', ['R2', "(slice(None), 1)"], '120 uL'),
              T('R', 'R2', '10 uL'), T(['R2', "(slice(None), 1)"], ['R', "(slice(None), 1)"], '5 uL')]      # earlier stamps both ways


def direct_cases():
    acts = []
    for src in ('A', 'G', 'Z', 'L'):
        for e in range(-9, 1):
            for m in ('1', '2.5'):
                for unit in ('L', 'g', 'mol', 'U'):
                    acts.append(T(src, 'D', f"{m}e{e} {unit}"))
        for q in ('10 mg', '1 mL', '3 uL', '0.5 mmol', '7 ug', '40 nL', '2 U', '0.0003 U'):
            acts.append(T(src, 'K', q))
        acts.append(T(src, 'D', '@whole'))             # everything the source holds
        acts.append(T(src, 'D', '@half-then-rest'))    # two transfers: half, then exactly the remainder
    for c in ('0.3 M', '0.05 M', '1 mM', '0.01 g/g', '2 g/L'):
        acts.append({'op': 'dilute', 'obj': 'K', 'solute': 'nacl', 'conc': c, 'solvent': 'water'})
    for q in ('30 mL', '0.2 L', '21 g', '20.6 mL', '20.0005 mL' if False else '25 g', '2 mol'):
        for solvent in ('water', 'dmso', 'lipase'):          # (an enzyme as the filler: it has a density in U/mL)
            acts.append({'op': 'fill_to', 'obj': 'K', 'solvent': solvent, 'q': q})
    # amounts at the edges of the human-readable scale: just below a power of 1000 (they ROUND up to 1000 of the smaller unit),
    # exactly on it, and just above it - into an empty vessel, so that the amount added is the amount written
    for q in ('999.7 uL', '999.4 uL', '1000 uL', '1 mL', '1000.4 uL', '999.97 mL', '0.9999996 L', '999.6 nL', '0.99996 mL', '1000 mL',
              '999.7 mg', '999.96 ug'):
        for solvent in ('water', 'dmso'):
            acts.append({'op': 'fill_to', 'obj': 'D', 'solvent': solvent, 'q': q})
        acts.append(T('L', 'D', q))
    for kw in ({'concentration': '0.5 M', 'total_quantity': '100 mL'}, {'concentration': '1 mM', 'total_quantity': '2 mL'},
               {'quantity': '3 mg', 'total_quantity': '500 uL'}, {'concentration': '0.02 g/g', 'quantity': '1.5 g'},
               {'concentration': '5 %w/v', 'total_quantity': '10 mL'}):
        for solute, solvent in (('nacl', 'water'), ('nacl', 'L'), ('dmso', 'water'), ('na2so4', 'A'), ('nacl', 'A')):
            acts.append({'op': 'create_solution', 'solute': solute, 'solvent': solvent, 'name': 'N', 'kw': kw})
    for kw in ({'concentration': '2 U/mL', 'total_quantity': '10 mL'}, {'quantity': '300 U', 'total_quantity': '5 g'}):
        acts.append({'op': 'create_solution', 'solute': 'lipase', 'solvent': 'water', 'name': 'N', 'kw': kw})
    for c, q in (('0.25 M', '10 mL'), ('1 mM', '500 uL'), ('0.01 g/g', '3 g'), ('0.4 M', '2 mL')):
        for solvent in ('water', 'dmso'):
            acts.append({'op': 'create_solution_from', 'src': 'K', 'solute': 'nacl', 'conc': c, 'solvent': solvent, 'q': q,
                         'name': 'N'})
    # plate operations: the line appended to every changed WELL is judged
    for q in ('25 uL', '3 mg', '40 umol', '0.5 uL'):
        acts += [T('K', 'R', q), T('K', ['R', "(1, 1)"], q), T('R', 'D', q), T(['R', "(slice(None), 2)"], 'D', q),
                 T(['R', "(1, 1)"], ['R', "(2, slice(None))"], q), T(['R', "(1, slice(None))"], ['R', "(2, 2)"], q),
                 T(['R', "(1, slice(None))"], ['R', "(2, slice(None))"], q), T('R', 'R2', q), T(['R', "'A:1'"], 'R2', q),
                 T(['R', "(slice(None), 1)"], ['R2', "[(1, 2)]"], q), T('R2', 'R', q), T(['R2', "(slice(None), 1)"], ['R', "(slice(None), 1)"], q)]
    for q in ('600 uL', '0.9 g'):
        acts += [{'op': 'fill_to', 'obj': 'R', 'solvent': 'water', 'q': q}, {'op': 'fill_to', 'obj': ['R', "(2, slice(None))"],
                                                                               'solvent': 'dmso', 'q': q}]
    for cap in ('inf L', '100 mL', '2 L', '750 uL'):
        for contents in ([['water', '10 mL'], ['nacl', '5.844 g']], [['dmso', '250 uL'], ['lipase', '5 U']],
                         [['nacl', '3 mg'], ['na2so4', '20 ug']], [['water', '1.2 L']], [['lipase', '0.02 U'], ['water', '30 nL']], [],
                         # the same substance listed twice (also in different units)
                         [['water', '5 mL'], ['nacl', '1 g'], ['water', '7 mL']], [['nacl', '2 g'], ['nacl', '10 mmol']]):
            acts.append({'op': 'new_container', 'name': 'N', 'max': cap, 'contents': contents})
    return acts


_G = {}


def _direct(ai):
    pp, vidx = _G['pp'], _G['vidx']
    act = _G['acts'][ai]
    subs, world = e1.build(pp, vidx, W, PLATE_SEED)
    if act.get('q', '').startswith('@'):
        vu = pp.config.volume_storage_unit
        src = world[act['src']]
        if ref.measure(pp, src.contents, 'L') == 0:
            return [], 0, ('skip', 'no-volume')
        if act['q'] == '@half-then-rest':
            first = e1.apply(pp, subs, world, dict(act, q=f"{src.volume / 2!r} {vu}"))
            world = e1.commit(world, first)
        act = dict(act, q=f"{world[act['src']].volume!r} {vu}")
    env.clear_caches(pp)
    if act['op'] == 'fill_to' and act.get('solvent') == 'dmso' and 'dmso_x' in subs:
        # what a text states does not depend on texts written before: a vessel is first filled with the TWIN of the filler (same
        # name, other density and molar mass), to the same target - part of the judged and replayed case
        try:
            pp.Container('scratch', 'inf L').fill_to(subs['dmso_x'], act['q'])
        except Exception:  # noqa
            pass
    obs = e1.apply(pp, subs, world, act)
    if not obs['ok']:
        return [], 0, ('refused', act['op'])
    names = set(subs) | set(world) | {'N'}
    case = {'family': 'direct', 'vidx': vidx, 'act': act}
    op = act['op']
    new = obs['new']
    plate_names = [n for n in ([e1.refname(act[k]) for k in ('src', 'dst', 'obj') if k in act]) if e1.is_plate(world.get(n))]
    if plate_names:
        before, after = [], []
        for n in {e1.refname(act[k]) for k in ('src', 'dst', 'obj') if k in act}:
            if e1.is_plate(world[n]):
                before += list(world[n].wells.flatten())
                after += list(new[n].wells.flatten())
            else:
                before.append(world[n])
                after.append(new[n])
        cands = candidates(pp, subs, before, after, requested(act.get('q', '')))
        wnames = set(subs)
        vs_all, ntok = [], 0
        for wb, wa in zip(before, after):
            ib, ia = wb.instructions or '', wa.instructions or ''
            if ia == ib:
                continue
            if not ia.startswith(ib):
                vs_all = [V(f"instructions | instruction-history-rewritten | well.instructions,{op}",
                            f"{e1.act_str(act)}: an EARLIER instruction line of {wa.name} was changed: {ib!r} became {ia!r}", case)]
                break
            vs, k = check_text(pp, ia[len(ib):], cands, wnames, f"{e1.act_str(act)}: instructions of {wa.name}", case,
                               f"well.instructions,{op}")
            ntok += k
            if vs:
                vs_all = vs
                break
        return vs_all, ntok, ('ok', op + '/plate', ntok > 0)
    if op == 'transfer':
        s, d = act['src'], act['dst']
        cands = candidates(pp, subs, [world[s], world[d]], [new[s], new[d]], requested(act['q']))
        text = new[d].instructions.splitlines()[-1]
        src_kind = 'liquid-bearing' if any(x.is_liquid() for x in world[s].contents) else \
            'enzymes-only' if all(x.is_enzyme() for x in world[s].contents) else 'solids-only'
        feat = f"Container.transfer,source={src_kind}"
    elif op in ('dilute', 'fill_to'):
        o = act['obj']
        cands = candidates(pp, subs, [world[o]], [new[o]], requested(act.get('q', '')))
        text = new[o].instructions.splitlines()[-1]
        feat = f"Container.{op}"
    elif op == 'new_container':
        cands = candidates(pp, subs, [None], [new['N']])
        text = new['N'].instructions
        feat = "Container()"
    elif op == 'create_solution':
        before, after = [None], [new['N']]
        if act['solvent'] in world:
            before.append(world[act['solvent']])
            after.append(new[act['solvent']])
        cands = candidates(pp, subs, before, after, requested(*[v for v in act['kw'].values() if isinstance(v, str)]))
        text = new['N'].instructions
        feat = f"create_solution,solvent={'container' if act['solvent'] in world else 'substance'}"
        if act['solvent'] in world:
            # a solute that the solvent container already holds: "Add <x> of <solute>" can only mean what was ADDED, not what
            # the new solution holds in the end (weighed in + arrived dissolved) - that reading is withdrawn here
            solutes = act['solute'] if isinstance(act['solute'], list) else [act['solute']]
            for sn in solutes:
                s = subs[sn]
                if world[act['solvent']].contents.get(s, 0.0) > 0:
                    rs = ref.rsub(s)
                    final = new['N'].contents.get(s, 0.0)
                    drop = {(b, float(ref.base_amount(pp, rs, final) * ref.per_base(rs, b))) for b in ('L', 'g', 'mol', 'U')
                            if ref.per_base(rs, b)}
                    cands = [c for c in cands if not (c[2] == s.name and (c[0], c[1]) in drop)]
                    feat += ',solvent-holds-solute'
    else:
        cands = candidates(pp, subs, [None, world[act['src']]], [new['N'], new[act['src']]], requested(act['q']))
        # pure solvent added is part of the new solution's contents (delta vs nothing): covered by 'present afterwards'
        took = {s: world[act['src']].contents[s] - new[act['src']].contents.get(s, 0.0) for s in world[act['src']].contents}
        pure = {s: a - took.get(s, 0.0) for s, a in new['N'].contents.items()}
        for s, a in pure.items():
            rs = ref.rsub(s)
            for base in ('L', 'g', 'mol'):
                cands.append((base, float(ref.base_amount(pp, rs, a) * ref.per_base(rs, base)), s.name))
        text = new['N'].instructions
        feat = "create_solution_from"
    vs, ntok = check_text(pp, text, cands, names, e1.act_str(act), case, feat)
    return vs, ntok, ('ok', op, ntok > 0)


# ---- (c) recipe step instructions -----------------------------------------------------------------------------------
def _program(prog_idx):
    pp, vidx, voc = _G['pp'], _G['vidx'], _G['voc']
    program = [voc[i] for i in prog_idx]
    states = e2.prefix_states(pp, vidx, program)
    b = e2.bake(pp, vidx, program)
    subs = b['subs']
    names = set(subs) | set(e2.SPEC) | set(e2.CREATED) | {'A2'}
    out, ntok = [], 0
    i = len(program) - 1          # every step is judged once, when it is the last step of its program
    act = program[i]
    step = b['recipe'].steps[i]
    involved = set(e2.mentions(act)) | ({e2.creates(act)} if e2.creates(act) else set())
    before, after = [], []
    for n in sorted(involved):
        ob, oa = states[i].get(n), states[i + 1].get(n)
        if e1.is_plate(oa):
            before += list(ob.wells.flatten())
            after += list(oa.wells.flatten())
        else:
            before.append(ob)
            after.append(oa)
    req = [v for v in (act.get('q'),) if v] + [v for v in (act.get('kw') or {}).values() if isinstance(v, str)]
    cands = candidates(pp, subs, before, after, requested(*req))
    step_cands = list(cands)           # the STEP's text states what the step did: 'by adding 0 L' is true only if nothing was added
    if act['op'] == 'fill_to':
        # bake performs a recipe fill_to twice (whole object, then the addressed part): the second fill truly adds nothing, and
        # the line that it appends to the object's own instructions says so
        cands.append(('L', 0.0, act['solvent']))
    case = {'family': 'recipe', 'vidx': vidx, 'program': program}
    vs, k = check_text(pp, step.instructions, step_cands, names, f"step {i} of [{' ; '.join(e1.act_str(a) for a in program)}]", case,
                       f"RecipeStep,{e2.step_kind(act)}")
    ntok += k
    out += vs
    if act['op'] == 'transfer' and not vs:
        # 'Transfer <q> from '<source>' to '<destination>'.': the two names are those of the step's source and destination
        import re as _re
        m = _re.search(r"from '(.*)' to '(.*)'\.", step.instructions.replace('\n', ' '))
        sname, dname = e1.refname(act['src']), e1.refname(act['dst'])
        if m and not (m.group(1).strip().startswith(sname) and m.group(2).strip().startswith(dname)):
            out.append(V(f"instructions | wrong-object-named | RecipeStep,{e2.step_kind(act)}",
                         f"step {i} of [{' ; '.join(e1.act_str(a) for a in program)}] moves material from {sname} to {dname}, its "
                         f"text says {step.instructions!r}", case, f"from '{sname}...' to '{dname}...'", step.instructions))
    # the baked objects' own instructions: last line of every object the step changed
    for n in sorted(involved):
        oa = states[i + 1].get(n)
        if oa is None or e1.is_plate(oa) or not getattr(oa, 'instructions', None):
            continue
        if states[i].get(n) is not None and states[i][n].instructions == oa.instructions:
            continue
        text = oa.instructions if states[i].get(n) is None else oa.instructions[len(states[i][n].instructions):]
        vs, k = check_text(pp, text, cands, names, f"instructions of {n} after step {i} of "
                           f"[{' ; '.join(e1.act_str(a) for a in program)}]", case, f"Container.instructions,{e2.step_kind(act)}")
        ntok += k
        out += vs
    # wells of plates the step changed: the line(s) the step appended to each well's own instructions
    wnames = names - set(e2.SPEC) - set(e2.CREATED) - {'A2'}       # 'of P well A,1': the object is named by two words
    for n in sorted(involved):
        oa, ob = states[i + 1].get(n), states[i].get(n)
        if oa is None or not e1.is_plate(oa) or ob is None:
            continue
        for wb, wa in zip(ob.wells.flatten(), oa.wells.flatten()):
            ib, ia = wb.instructions or '', wa.instructions or ''
            if ia == ib:
                continue
            if not ia.startswith(ib):
                out.append(V(f"instructions | instruction-history-rewritten | well.instructions,{e2.step_kind(act)}",
                             f"instructions of {n}/{wa.name} after step {i} of [{' ; '.join(e1.act_str(a) for a in program)}]: an "
                             f"EARLIER line was changed: {ib!r} became {ia!r}", case))
                break
            vs, k = check_text(pp, ia[len(ib):], cands, wnames, f"instructions of {n}/{wa.name} after step {i} of "
                               f"[{' ; '.join(e1.act_str(a) for a in program)}]", case, f"well.instructions,{e2.step_kind(act)}")
            ntok += k
            out += vs
            if vs:
                break
    return out, ntok, (e2.step_kind(act), ntok > 0)


def run(col):
    pp = env.load()
    col.rule = ("(a) get_human_readable_unit and convert_from_storage_to_standard_format on magnitudes {1, 2.5, 9.99} x 10^e, e = -12..6, "
                "both signs, 8 unit spellings / 4 object kinds: value x SI(prefix) must be the same amount; (b) the instruction text "
                "of ~420 direct operations (transfers from liquid-bearing / solids-only / enzymes-only sources with quantities 1e-9..1 "
                "in L, g, mol, U; dilute; fill_to; create_solution; create_solution_from; constructor) and (c) RecipeStep.instructions "
                "and container instructions for the last step of every program of <= 3 (quick) / 4 (thorough) steps: every token "
                "'<number> <unit>[ of <name>]' must equal, at its displayed decimals, a true amount of that operation (changes and "
                "amounts of each substance, totals, capacity, requested values); (d) recipe create_solution steps over every ordered "
                "pair / triple of three solutes with per-solute concentrations or quantities: the text lists the names in the order "
                "of the values. Non-trivial = distinct (family, operation, had-token)")
    col.assumptions += ["a line without any amount token is not judged (counted as unparsed)",
                        "the candidate set of true amounts is deliberately generous: only factor-level errors are reported"]
    v, n = rescaling(pp)
    col.add(v)
    total, tokens, classes = n, 0, set()
    vals = [col.seed % 3] if col.tier == 'quick' else [0, 1, 2]
    for vidx in vals:
        acts = direct_cases()
        _G.update(pp=pp, vidx=vidx, acts=acts)
        for vs, ntok, cls in par.pmap(_direct, list(range(len(acts)))):
            col.add(vs)
            tokens += ntok
            classes.add(('direct',) + cls)
        total += len(acts)
        voc, programs, _ = e2.successful_programs(pp, vidx, 3 if col.tier == 'quick' else 4)
        _G.update(voc=voc)
        for vs, ntok, cls in par.pmap(_program, programs, chunk=4):
            col.add(vs)
            tokens += ntok
            classes.add(('recipe',) + cls)
        total += len(programs)
        for mc in multi_solute_cases():
            vs, cls = _multi_solute(mc, vidx)
            col.add(vs)
            classes.add(('multi-solute', cls[0], len(mc['solutes']), 'concentration' in mc['kw']))
            total += 1
        col.cov.setdefault('valuations', []).append({'valuation': vidx, 'direct_operations': len(acts), 'programs': len(programs)})
    col.count('transitions', total)
    col.count('traces', total)
    col.count('evaluations', total)
    col.count('states', len(classes))
    col.count('tokens_judged', tokens)
    col.note_nontrivial({report.digest(c) for c in classes})
    col.sample({'text': "Transfer 2.5 mL of A to D", 'tokens': ['2.5 mL of A']})
    col.sample({'text': "Dilute 'nacl' in 'A' to 0.1 M by adding 9.8 mL of 'water'.", 'tokens': ["9.8 mL of 'water'"]})


# ---- (d) step texts that list several solutes: the i-th name goes with the i-th stated value ---------------------------------
def multi_solute_cases():
    import itertools
    concs = ['0.5 M', '0.1 M', '0.02 M']
    qtys = ['40 mg', '15 mg', '70 mg']
    for k in (2, 3):
        for solutes in itertools.permutations(('nacl', 'dmso', 'na2so4'), k):
            yield {'solutes': list(solutes), 'kw': {'concentration': concs[:k], 'total_quantity': '10 mL'}}
            yield {'solutes': list(solutes), 'kw': {'quantity': qtys[:k], 'total_quantity': '10 mL'}}


def _multi_solute(mc, vidx):
    """The step's text names the solutes and prints the per-solute values as given: a name at position i of the text's list of
    names must be the solute whose value stands at position i (the made solution decides which solute got which value)."""
    pp = _G['pp']
    subs = e1.substances(pp, vidx)
    sol = [subs[n] for n in mc['solutes']]
    case = {'family': 'multi-solute', 'vidx': vidx, 'mc': mc}
    call = f"recipe.create_solution([{', '.join(mc['solutes'])}], water, 'x', {mc['kw']})"
    r = pp.Recipe()
    try:
        r.create_solution(sol, subs['water'], 'x', **mc['kw'])
        made = r.bake()['x']
    except Exception as e:  # noqa: whether the request is accepted is C05's matter
        return [], ('refused', type(e).__name__)
    text = r.steps[0].instructions
    pos = {n: text.find(n) for n in mc['solutes']}
    values = mc['kw'].get('concentration') or mc['kw'].get('quantity')
    vpos = [text.find(v) for v in values]
    if min(pos.values()) < 0 or min(vpos) < 0 or sorted(vpos) != vpos:
        return [], ('unparsed',)            # the text does not list names and values this way: not judged
    order = sorted(mc['solutes'], key=lambda n: pos[n])
    if order != mc['solutes']:
        return [V("instructions | value-attributed-to-wrong-solute | RecipeStep,create_solution,multi-solute",
                  f"{call}: the step's text {text!r} lists the solutes as {order} next to the values {values} given for "
                  f"{mc['solutes']}", case, mc['solutes'], order)], ('judged', len(sol))
    return [], ('judged', len(sol))


def replay(case):
    pp = env.load()
    if case['family'] == 'multi-solute':
        _G.update(pp=pp)
        return _multi_solute(case['mc'], case['vidx'])[0]
    if case['family'] == 'rescale':
        return rescaling(pp)[0]
    if case['family'] == 'direct':
        _G.update(pp=pp, vidx=case['vidx'], acts=[case['act']])
        return _direct(0)[0]
    _G.update(pp=pp, vidx=case['vidx'], voc=case['program'])
    return _program(tuple(range(len(case['program']))))[0]
