"""C15 — container flows and amount remaining balance with the recipe's state (ledger from prefix bakes)."""
from .. import tracking

PID = 'C15'


def run(col):
    col.rule = ("same programs and stage layouts as C09 x every used object (containers and plates, per well) x timeframes in "
                "which a step touches it x units {uL, mL, mg, umol, U} x mode {before, after}: get_amount_remaining equals the "
                "object's total at the start/end by the reference model; get_container_flows in/out equal the sums of per-step "
                "gains/losses, are non-negative and satisfy in - out = change of amount remaining. Non-trivial = distinct sets "
                "of step kinds among the programs")
    col.assumptions += ["objects not touched by any step of the timeframe are not queried (the property excludes them)"]
    tracking.run(col, 'C15')


def replay(case):
    return tracking.replay(case, 'C15')
