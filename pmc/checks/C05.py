"""C05 — create_solution meets every stated constraint or refuses (complete specification grammar, E5)."""
import itertools
from fractions import Fraction as F

from .. import e1, env, par, ref, report
from ..report import V

PID = 'C05'

SOLUTES = [['nacl'], ['dmso'], ['lipase'], ['nacl', 'dmso'], ['nacl', 'na2so4'], ['nacl', 'lipase']]
# target amounts of the solutes in a reference mixture (base units: mol, or U for the enzyme)
TARGET = {'nacl': F(2, 1000), 'dmso': F(3, 100), 'lipase': F(30), 'na2so4': F(1, 2000)}
SOLVENTS = ['water', 'tea', 'W1', 'W2', 'W3', 'W4']
CONTAINERS = {'W1': [('water', '40 mL')], 'W2': [('water', '25 mL'), ('tea', '15 mL')],
              'W3': [('water', '40 mL'), ('nacl', '1 mmol')],
              # a solvent container that also holds an enzyme (activity units must not be mistaken for moles)
              'W4': [('water', '40 mL'), ('lipase', '25 U')]}
LEVELS = {'dilute': F(30, 1000), 'medium': F(4, 1000), 'just-feasible': F(5, 100000), 'infeasible': F(-1, 1000),  # L of solvent
          'short-container': F(50, 1000)}     # a quarter more than a solvent container holds (feasible with a pure solvent)
CONC_UNITS = {'solid': ['M', 'mM', 'm', 'mol/L', 'mmol/mL', 'g/L', 'g/mL', 'g/g', 'g/kg', 'mol/mol', 'mL/L', '%w/w', '%w/v',
                        'mg/10 mL', 'umol/10 uL'],
              'liquid': ['M', 'm', 'mol/L', 'g/L', 'g/g', 'mol/mol', 'L/L', 'mL/L', '%v/v', '%w/w', 'uL/10 mL', 'mL/g'],
              'enzyme': ['U/mL', 'U/L', 'U/g', 'U/mg', 'U/mol', 'g/g', 'mg/mL', 'U/10 uL']}
Q_UNITS = {'solid': ['g', 'mg', 'mol', 'mmol', 'mL'], 'liquid': ['g', 'mg', 'mol', 'mmol', 'L', 'mL'],
           'enzyme': ['U', 'mg', 'g', 'mL']}
T_UNITS = ['L', 'mL', 'g', 'mol']


def fmt(val, unit):
    """12 significant digits: the deviation from the exact value (1e-12 relative) is far inside every tolerance."""
    return f"{float(val):.12g} {unit}"


def conc_str(val, cu):
    """val is the exact concentration in base units; cu the unit spelling (may carry a count: 'mg/10 mL')."""
    mult, _, _ = ref.parse_concentration('1 ' + cu)
    return f"{float(val / mult):.12g} {cu}"


THOROUGH = {'on': False}
SOLUTES_THOROUGH = SOLUTES + [['nacl', 'na2so4', 'dmso'], ['dmso', 'tea'], ['na2so4'], ['tea']]
LEVELS_THOROUGH = dict(LEVELS, **{'very-dilute': F(400, 1000), 'concentrated': F(8, 10000), 'far-infeasible': F(-20, 1000)})
TARGET['tea'] = F(1, 100)
Q_UNITS_THOROUGH = {'solid': ['g', 'mg', 'ug', 'kg', 'mol', 'mmol', 'umol', 'mL', 'uL'],
                    'liquid': ['g', 'mg', 'kg', 'mol', 'mmol', 'umol', 'L', 'mL', 'uL', 'dL'],
                    'enzyme': ['U', 'mg', 'ug', 'g', 'mL', 'uL']}
T_UNITS_THOROUGH = ['L', 'mL', 'uL', 'dL', 'g', 'mg', 'kg', 'mol', 'mmol']


def specs(vidx):
    """Yield JSON-able specifications with the data needed to build them."""
    kinds = {n: s[0] for n, s in e1.VALUATIONS[vidx].items()}
    th = THOROUGH['on']
    for solutes in (SOLUTES_THOROUGH if th else SOLUTES):
        k0 = kinds[solutes[0]]
        for solvent in SOLVENTS:
            if solvent in solutes:
                continue          # a substance dissolved in itself is not a specification
            for level in (LEVELS_THOROUGH if th else LEVELS):
                for mode in ('ct', 'cq', 'qt'):
                    cus = CONC_UNITS[k0] if 'c' in mode else [None]
                    qus = (Q_UNITS_THOROUGH if th else Q_UNITS)[k0] if 'q' in mode else [None]
                    tus = (T_UNITS_THOROUGH if th else T_UNITS) if 't' in mode else [None]
                    for cu, qu, tu in itertools.product(cus, qus, tus):
                        yield {'solutes': solutes, 'solvent': solvent, 'level': level, 'mode': mode, 'cu': cu, 'qu': qu,
                               'tu': tu, 'broadcast': False}
        if len(solutes) == 2:
            for solvent in ('water', 'W1'):
                for level in ('medium', 'infeasible'):
                    for cu in CONC_UNITS[k0][:6]:
                        yield {'solutes': solutes, 'solvent': solvent, 'level': level, 'mode': 'ct', 'cu': cu, 'qu': None,
                               'tu': 'mL', 'broadcast': True}
                    for qu in Q_UNITS[k0][:3]:
                        yield {'solutes': solutes, 'solvent': solvent, 'level': level, 'mode': 'qt', 'cu': None, 'qu': qu,
                               'tu': 'g', 'broadcast': True}
                    # inconsistent over-determined specification: one quantity off by 1 %
                    yield {'solutes': solutes, 'solvent': solvent, 'level': level, 'mode': 'cq', 'cu': CONC_UNITS[k0][0],
                           'qu': Q_UNITS[k0][0], 'tu': None, 'broadcast': False, 'perturb': True}
    # two solutes whose concentrations are stated in DIFFERENT unit pairs (same numerator, other denominator, and vice versa)
    for solutes in (['nacl', 'na2so4'], ['nacl', 'dmso']):
        for cu, cu2 in (('M', 'm'), ('m', 'M'), ('g/L', 'g/g'), ('mol/L', 'mol/mol'), ('g/g', 'mol/g'), ('%w/v', '%w/w')):
            for solvent in ('water', 'W1'):
                for level in ('medium', 'infeasible'):
                    yield {'solutes': solutes, 'solvent': solvent, 'level': level, 'mode': 'ct', 'cu': cu, 'cu2': cu2,
                           'qu': None, 'tu': 'mL', 'broadcast': False}
                    yield {'solutes': solutes, 'solvent': solvent, 'level': level, 'mode': 'cq', 'cu': cu, 'cu2': cu2,
                           'qu': 'mg', 'tu': None, 'broadcast': False}
    # quantities of the solutes stated in units of DIFFERENT kinds (moles next to grams next to millilitres)
    for solutes, qus in ((['nacl', 'na2so4'], ['mmol', 'g']), (['nacl', 'na2so4'], ['mg', 'mol']), (['nacl', 'dmso'], ['g', 'mL']),
                         (['nacl', 'dmso'], ['umol', 'mg']), (['nacl', 'na2so4', 'dmso'], ['mmol', 'mg', 'uL'])):
        for solvent in ('water', 'W1'):
            for level in ('medium', 'infeasible'):
                yield {'solutes': solutes, 'solvent': solvent, 'level': level, 'mode': 'qt', 'cu': None, 'qu': qus[0], 'qus': qus,
                       'tu': 'mL', 'broadcast': False}
                yield {'solutes': solutes, 'solvent': solvent, 'level': level, 'mode': 'cq', 'cu': 'M', 'qu': qus[0], 'qus': qus,
                       'tu': None, 'broadcast': False}
    # three solutes whose concentrations share a denominator that is NOT adjacent in the list (molar, molal, molar ...)
    for cus in (['M', 'm', 'M'], ['m', 'M', 'm'], ['%w/w', '%v/v', 'mg/g'], ['g/L', 'mol/mol', 'mol/L'], ['mol/kg', 'g/g', 'M']):
        for solvent in ('water', 'W1'):
            for level in ('medium', 'infeasible'):
                yield {'solutes': ['nacl', 'na2so4', 'dmso'], 'solvent': solvent, 'level': level, 'mode': 'ct', 'cu': cus[0],
                       'cu2': cus[1], 'cus': cus, 'qu': None, 'tu': 'mL', 'broadcast': False}
                yield {'solutes': ['nacl', 'na2so4', 'dmso'], 'solvent': solvent, 'level': level, 'mode': 'cq', 'cu': cus[0],
                       'cu2': cus[1], 'cus': cus, 'qu': 'mg', 'tu': None, 'broadcast': False}
    # a unit that cannot measure the solute: must be refused
    for solute, cu in (('nacl', 'U/mL'), ('dmso', 'U/g'), ('lipase', 'M'), ('lipase', 'mol/mol')):
        yield {'solutes': [solute], 'solvent': 'water', 'level': 'medium', 'mode': 'ct', 'cu': cu, 'qu': None, 'tu': 'mL',
               'broadcast': False, 'wrong_kind': True}


_G = {}


def build_spec(pp, subs, sp):
    """-> (solute objs, solvent obj, kwargs, solver rows/rhs, meta) using the reference model only."""
    solutes = [subs[n] for n in sp['solutes']]
    rsol = [ref.rsub(s) for s in solutes]
    if sp['solvent'] in CONTAINERS:
        solvent = pp.Container(sp['solvent'], initial_contents=[(subs[n], q) for n, q in CONTAINERS[sp['solvent']]])
        # per unit of lambda (fraction of the container): measures of the whole container
        sol_measure = lambda u: ref.measure(pp, solvent.contents, u)          # noqa
        sol_vol = sol_measure('L')
    else:
        solvent = subs[sp['solvent']]
        rsv = ref.rsub(solvent)
        sol_measure = lambda u: ref.per_base(rsv, u)                           # noqa  (per mol of solvent)
        sol_vol = ref.per_base(rsv, 'L')
    y = LEVELS_THOROUGH[sp['level']] / sol_vol        # solvent unknown: mol of pure solvent, or fraction of the container
    x = [TARGET[n] for n in sp['solutes']]
    kw = {}
    n = len(solutes)

    def tot(u):
        return sum(xi * ref.per_base(r, u) for xi, r in zip(x, rsol)) + y * sol_measure(u)
    rows, rhs = [], []
    if 'c' in sp['mode']:
        mult, num, den = ref.parse_concentration('1 ' + sp['cu'])
        if sp.get('cu2'):
            # per-solute unit pairs
            units = sp.get('cus') or [sp['cu'], sp['cu2']]
            strs, rows_c = [], []
            for i, (xi, r, cu) in enumerate(zip(x, rsol, units)):
                _, nu, de = ref.parse_concentration('1 ' + cu)
                d = tot(de)
                if d == 0:
                    return None
                strs.append(conc_str(xi * ref.per_base(r, nu) / d, cu))
            kw['concentration'] = strs
            for i, (sc, cu) in enumerate(zip(strs, units)):
                c, nu, de = ref.parse_concentration(sc)
                row = [c * ref.per_base(r, de) for r in rsol] + [c * sol_measure(de)]
                row[i] -= ref.per_base(rsol[i], nu)
                rows.append(row)
                rhs.append(F(0))
        elif sp.get('wrong_kind'):
            cs = [F(1, 100)] * n
        else:
            if sp['broadcast']:
                # equal concentration for every solute: adjust the later targets
                for j in range(1, n):
                    pj = ref.per_base(rsol[j], num)
                    if pj != 0:
                        x[j] = x[0] * ref.per_base(rsol[0], num) / pj
            d = tot(den)
            if d == 0:
                return None
            cs = [xi * ref.per_base(r, num) / d for xi, r in zip(x, rsol)]
        strs = [] if sp.get('cu2') else [conc_str(c, sp['cu']) for c in cs]
        if not sp.get('cu2'):
            kw['concentration'] = strs[0] if (sp['broadcast'] or n == 1) else strs
        for i, s in enumerate(strs):
            c, _, _ = ref.parse_concentration(s)
            row = [c * ref.per_base(r, den) for r in rsol] + [c * sol_measure(den)]
            row[i] -= ref.per_base(rsol[i], num)
            rows.append(row)
            rhs.append(F(0))
    if 'q' in sp['mode']:
        qs = []
        if sp['broadcast']:
            q0 = x[0] * ref.per_base(rsol[0], ref.split_unit(sp['qu'])[1])
            for j in range(1, n):
                pj = ref.per_base(rsol[j], ref.split_unit(sp['qu'])[1])
                if pj != 0:
                    x[j] = q0 / pj
        qunits = sp.get('qus') or [sp['qu']] * n          # per-solute quantity units (mixed bases) where given
        for i, (xi, r) in enumerate(zip(x, rsol)):
            pf, b = ref.split_unit(qunits[i])
            val = xi * ref.per_base(r, b) / pf
            if sp.get('perturb') and i == n - 1:
                val = val * F(101, 100)
            qs.append(fmt(val, qunits[i]))
        kw['quantity'] = qs[0] if (sp['broadcast'] or n == 1) else qs
        for i, s in enumerate(qs):
            v, b = ref.parse_quantity(s)
            row = [F(0)] * (n + 1)
            row[i] = ref.per_base(rsol[i], b)
            rows.append(row)
            rhs.append(v)
    if 't' in sp['mode']:
        pf, b = ref.split_unit(sp['tu'])
        s = fmt(tot(b) / pf, sp['tu'])
        kw['total_quantity'] = s
        v, b = ref.parse_quantity(s)
        rows.append([ref.per_base(r, b) for r in rsol] + [sol_measure(b)])
        rhs.append(v)
    return solutes, solvent, kw, rows, rhs


def holds_solute(sp):
    """The solvent container already holds one of the solutes: 'quantity / concentration of the solute' is ambiguous."""
    return sp['solvent'] in CONTAINERS and any(n in sp['solutes'] for n, _ in CONTAINERS[sp['solvent']])


def classify(sp, rows, rhs, solvent_is_container):
    if holds_solute(sp) and ('c' in sp['mode'] or 'q' in sp['mode']):
        return 'dontcare', 'solvent container already holds the solute: stated solute quantity/concentration ambiguous'
    n_unknown = len(rows[0])
    if len(rows) > n_unknown and sp['cu']:
        # over-determined: consistency is only defined up to the documented rounding of the parsed concentrations
        # (10^-precision absolute in base units); judged only where that resolution is finer than 1e-8 relative
        if sp['_cmin'] is not None and 1e-10 / sp['_cmin'] > 1e-8:
            return 'dontcare', 'over-determined with a coarsely resolved concentration'
    r = ref.solve_exact(rows, rhs)
    if r[0] == 'underdetermined':
        return 'dontcare', 'singular specification'
    x, resid = r[1], r[2]
    if resid > F(1, 1000):
        return 'refuse', 'inconsistent specification'
    if resid > F(1, 10 ** 9):
        return 'dontcare', 'nearly inconsistent'
    scale = max(abs(v) for v in x) or F(1)
    if any(v <= 0 for v in x):
        if all(v > -scale / 10 ** 6 for v in x) and not any(v < 0 and abs(v) > F(1, 10 ** 9) for v in x):
            return 'dontcare', 'on the boundary'
        return 'refuse', 'needs a non-positive amount'
    if solvent_is_container and x[-1] > 1:
        return 'refuse', 'needs more solvent than the container holds'
    if min(x) < scale / 10 ** 7:
        return 'dontcare', 'almost on the boundary'
    return 'accept', ''


def feature(sp, pp=None):
    massy = lambda u: u is not None and any(t in u for t in ('g',)) and 'mol' not in u          # noqa
    return (f"solvent={'container' if sp['solvent'] in CONTAINERS else 'substance'},"
            f"solutes={len(sp['solutes'])},mode={sp['mode']},"
            f"mass-based={int(massy(sp['cu']) or massy(sp['qu']) or massy(sp['tu']))}")


def prelude(pp, subs):
    """Call history must not matter: another lot of the enzyme (same name, other specific activity) is dissolved first,
    with mass-, volume- and activity-based constraints."""
    twin = pp.Substance.enzyme('lipase', '3 U/mg')
    for kw in ({'quantity': '5 mg', 'total_quantity': '10 g'}, {'concentration': '2 U/mL', 'total_quantity': '5 mL'},
               {'concentration': '0.5 mg/g', 'quantity': '20 U'}):
        try:
            pp.Container.create_solution(twin, subs['water'], 'twin', **kw)
        except ValueError:
            pass


def run_spec(sp):
    pp, vidx = _G['pp'], _G['vidx']
    subs = e1.substances(pp, vidx)
    prelude(pp, subs)
    if sp['solvent'] in CONTAINERS:
        # ... nor what other vessel carried this name before: a decoy with the name, fill level and capacity of the solvent
        # container but another composition is used as the solvent of an earlier call
        try:
            real = pp.Container(sp['solvent'], initial_contents=[(subs[n], q) for n, q in CONTAINERS[sp['solvent']]])
            decoy = pp.Container(sp['solvent'], initial_contents=[(subs['dmso'], f"{real.volume!r} {pp.config.volume_storage_unit}")])
            pp.Container.create_solution(subs['nacl'], decoy, 'decoy', concentration='0.05 M', total_quantity='5 mL')
        except ValueError:
            pass
    built = build_spec(pp, subs, sp)
    if built is None:
        return [], ('skip',)
    solutes, solvent, kw, rows, rhs = built
    if not sp.get('wrong_kind'):
        # a unit that cannot measure one of the solutes (activity of a salt, moles of an enzyme) makes the stated value
        # vacuous (0): such specifications are generated only in the wrong-kind family
        if sp.get('cu2'):
            for s, cu in zip(solutes, sp.get('cus') or [sp['cu'], sp['cu2']]):
                if ref.per_base(ref.rsub(s), ref.parse_concentration('1 ' + cu)[1]) == 0:
                    return [], ('skip',)          # e.g. %v/v of a solid without volume (a configuration): vacuous
        for s in solutes:
            rs = ref.rsub(s)
            if sp['cu'] and not sp.get('cu2') and ref.per_base(rs, ref.parse_concentration('1 ' + sp['cu'])[1]) == 0:
                return [], ('skip',)
            if sp['qu'] and ref.per_base(rs, ref.split_unit(sp['qu'])[1]) == 0:
                return [], ('skip',)
        for s, qu in zip(solutes, sp.get('qus') or []):
            if ref.per_base(ref.rsub(s), ref.split_unit(qu)[1]) == 0:
                return [], ('skip',)
    is_c = sp['solvent'] in CONTAINERS
    sp = dict(sp)
    sp['_cmin'] = None
    if 'concentration' in kw:
        cl = kw['concentration'] if isinstance(kw['concentration'], list) else [kw['concentration']]
        sp['_cmin'] = min(abs(float(ref.parse_concentration(c)[0])) for c in cl) or None
    expect, why = classify(sp, rows, rhs, is_c)
    sp.pop('_cmin')
    case = {'vidx': vidx, 'spec': sp}
    call = f"create_solution({sp['solutes']}, {sp['solvent']}, {kw})"
    feat = feature(sp)
    fp_before = e1.exact_obj(solvent) if is_c else None
    env.clear_caches(pp)
    try:
        res = pp.Container.create_solution(solutes if len(solutes) > 1 else solutes[0], solvent, 'N', **kw)
    except ValueError as e:
        if expect == 'accept':
            return [V(f"create_solution | refused-feasible | {feat}", f"{call} is feasible but raised {type(e).__name__}: {e}",
                      case, 'returns', f"{type(e).__name__}: {e}")], (expect, 'ValueError')
        return [], (expect, 'ValueError')
    except Exception as e:  # noqa
        return [V(f"create_solution | wrong-exception | {feat}", f"{call} raised {type(e).__name__}: {e}", case, expect,
                  type(e).__name__)], (expect, type(e).__name__)
    if expect == 'refuse':
        return [V(f"create_solution | accepted-infeasible | {feat}", f"{call} cannot be met ({why}) but returned", case,
                  'ValueError', 'returned')], (expect, 'returned')
    # ---- post-conditions on what was returned -------------------------------------------------------------------
    vs = []
    if is_c:
        if not (isinstance(res, tuple) and len(res) == 2):
            return [V(f"create_solution | wrong-result-shape | {feat}", f"{call} returned {type(res).__name__}", case)], (expect, 'shape')
        residual, sol = res
    else:
        residual, sol = None, res
    cont = sol.contents
    allowed = set(solutes) | (set(solvent.contents) if is_c else {solvent})
    if set(cont) - allowed:
        vs.append(V(f"create_solution | extra-substance | {feat}", f"{call} contains {[s.name for s in set(cont) - allowed]}", case))
    if any(a <= 0 for a in cont.values()) or any(s not in cont for s in solutes):
        vs.append(V(f"create_solution | non-positive-amount | {feat}", f"{call} -> {e1.contents_key(sol, 9)}", case))
    judge_values = not holds_solute(sp)

    # the implementation rounds a parsed concentration to 10^-precision in base units (documented internal precision):
    # a concentration of 1.7e-5 mol/g is only defined to 3e-6 relative, and every derived amount with it
    rel = 1e-6
    if 'c' in sp['mode']:
        cmin = min(abs(float(ref.parse_concentration(c)[0])) for c in
                   (kw['concentration'] if isinstance(kw['concentration'], list) else [kw['concentration']]))
        rel += 10.0 ** -pp.config.internal_precision / cmin if cmin else 0.0

    def close(got, want):
        return abs(float(got) - float(want)) <= rel * abs(float(want)) + 1e-12
    if 'c' in sp['mode'] and judge_values and not vs:
        cs = kw['concentration'] if isinstance(kw['concentration'], list) else [kw['concentration']] * len(solutes)
        for s, cstr in zip(solutes, cs):
            c, num, den = ref.parse_concentration(cstr)
            got = ref.conc(pp, cont, s, num, den)
            if got is None or not close(got, c):
                vs.append(V(f"create_solution | constraint-missed | concentration,{feat}",
                            f"{call}: concentration of {s.name} is {float(got) if got is not None else None!r} {num}/{den}, "
                            f"requested {float(c)!r}", case, float(c), float(got) if got is not None else None))
                break
    if 'q' in sp['mode'] and judge_values and not vs:
        qs = kw['quantity'] if isinstance(kw['quantity'], list) else [kw['quantity']] * len(solutes)
        for s, qstr in zip(solutes, qs):
            v, b = ref.parse_quantity(qstr)
            got = ref.measure(pp, {s: cont.get(s, 0)}, b)
            if not close(got, v):
                vs.append(V(f"create_solution | constraint-missed | quantity,{feat}",
                            f"{call}: the solution holds {float(got)!r} {b} of {s.name}, requested {float(v)!r}", case,
                            float(v), float(got)))
                break
    if 't' in sp['mode'] and not vs:
        v, b = ref.parse_quantity(kw['total_quantity'])
        got = ref.measure(pp, cont, b)
        if not close(got, v):
            vs.append(V(f"create_solution | constraint-missed | total,{feat}",
                        f"{call}: total is {float(got)!r} {b}, requested {float(v)!r}", case, float(v), float(got)))
    if is_c and not vs:
        if e1.exact_obj(solvent) != fp_before:
            vs.append(V(f"create_solution | argument-mutated | {feat}", f"{call} modified the solvent container", case))
        # solvent portion = uniform aliquot; nothing lost
        orig = solvent.contents
        fr = None
        for s, a in orig.items():
            took = a - residual.contents.get(s, 0.0)
            inn = cont.get(s, 0.0) - (0.0 if s not in solutes else 0.0)
            if s in solutes:
                continue          # added solute and solute from the solvent are not separable in the result
            if abs(took - inn) > 1e-6 * abs(a) + 1e-9:
                vs.append(V(f"create_solution | not-conserved | {feat}",
                            f"{call}: {s.name}: container lost {took!r} but the solution holds {inn!r}", case, took, inn))
                break
            f_s = took / a if a else 0.0
            if fr is None:
                fr = f_s
            elif abs(f_s - fr) > 1e-6 * max(abs(fr), 1e-12) + 1e-12:
                vs.append(V(f"create_solution | non-uniform-aliquot | {feat}",
                            f"{call}: the solvent portion is not a uniform aliquot ({fr!r} vs {f_s!r} for {s.name})", case))
                break
        if not vs:
            for s, a in orig.items():
                if s in solutes:
                    took = a - residual.contents.get(s, 0.0)
                    if fr is not None and abs(took - a * fr) > 1e-6 * abs(a) + 1e-9:
                        vs.append(V(f"create_solution | non-uniform-aliquot | {feat}",
                                    f"{call}: solute inside the solvent container was not drawn with the common fraction", case))
    # ---- what is returned besides the amounts: the new vessel carries the requested name, the residual is the solvent vessel
    if not vs and (sol.name != 'N' or (is_c and (residual.name != solvent.name or residual.max_volume != solvent.max_volume))):
        vs.append(V(f"create_solution | identity-changed | {feat}",
                    f"{call}: returned {sol.name!r}" + (f" and residual {residual.name!r} (capacity {residual.max_volume!r}), the "
                                                        f"solvent vessel was {solvent.name!r} ({solvent.max_volume!r})" if is_c else ''),
                    case))
    # ---- the same request as a recipe step: same vessels ----------------------------------------------------------------
    if not vs:
        from .. import e2
        env.clear_caches(pp)
        try:
            r = pp.Recipe()
            if is_c:
                r.uses(solvent)
            r.create_solution(solutes if len(solutes) > 1 else solutes[0], solvent, 'N',
                              **{k: (list(v) if isinstance(v, list) else v) for k, v in kw.items()})
            baked = r.bake()
            d = e2.same_object(pp, baked['N'], sol) or (is_c and e2.same_object(pp, baked[solvent.name], residual)) or \
                (sorted(baked) != sorted(['N'] + ([solvent.name] if is_c else [])) and f"keys {sorted(baked)}")
            if d:
                vs.append(V(f"create_solution | recipe-differs-from-direct | {feat}",
                            f"{call} as a recipe step: the baked result differs from the direct call: {d}", case))
        except Exception as e:  # noqa
            vs.append(V(f"create_solution | recipe-differs-from-direct | {feat},raises={type(e).__name__}",
                        f"{call} returns when called directly, as a recipe step it raises {type(e).__name__}: {e}", case,
                        'returns', type(e).__name__))
        return vs, (expect, 'returned', 'recipe')
    return vs, (expect, 'returned')


# ---- argument shapes: exactly one value per solute, exactly two of the three keywords -------------------------------------
def shape_cases():
    vals = {'concentration': ['0.1 M', '0.05 M', '0.02 M'], 'quantity': ['50 mg', '20 mg', '10 mg']}
    out = []
    for solutes in (['nacl'], ['nacl', 'na2so4']):
        n = len(solutes)
        for form in ('list', 'scalar') if n == 1 else ('list',):
            for solvent in ('water', 'W1'):
                for key, other in (('concentration', {'total_quantity': '20 mL'}), ('quantity', {'total_quantity': '20 mL'}),
                                   ('quantity', {'concentration': '0.1 M'}), ('concentration', {'quantity': '50 mg'})):
                    for m in (n - 1, n, n + 1):
                        if m == 0:
                            continue
                        kw = dict(other)
                        kw[key] = vals[key][:m]
                        # a list with one value per solute is the documented form; one value too few or too many is not a
                        # specification. (A scalar next to it is broadcast - part of the main grammar.)
                        out.append({'solutes': solutes, 'form': form, 'solvent': solvent, 'kw': kw,
                                    'expect': 'accept' if m == n else 'refuse', 'tag': f"{key}-list-of-{m}-for-{n}"})
                # which-two-of-three
                for kw, tag in (({'concentration': '0.1 M'}, 'one-of-three'), ({'total_quantity': '20 mL'}, 'one-of-three'),
                                ({}, 'none-of-three'),
                                ({'concentration': '0.1 M', 'quantity': '50 mg', 'total_quantity': '20 mL'}, 'three-of-three')):
                    out.append({'solutes': solutes, 'form': form, 'solvent': solvent, 'kw': kw, 'expect': 'refuse', 'tag': tag})
    return out


def run_shape(sc):
    pp, vidx = _G['pp'], _G['vidx']
    subs = e1.substances(pp, vidx)
    solutes = [subs[n] for n in sc['solutes']]
    if sc['solvent'] in CONTAINERS:
        solvent = pp.Container(sc['solvent'], initial_contents=[(subs[n], q) for n, q in CONTAINERS[sc['solvent']]])
    else:
        solvent = subs[sc['solvent']]
    kw = {k: (list(v) if isinstance(v, list) else v) for k, v in sc['kw'].items()}
    arg = solutes[0] if sc['form'] == 'scalar' else solutes
    case = {'vidx': vidx, 'shape': sc}
    call = f"create_solution({sc['solutes'] if sc['form'] == 'list' else sc['solutes'][0]}, {sc['solvent']}, {sc['kw']})"
    feat = f"shape,{sc['tag']},solutes={sc['form']}"
    env.clear_caches(pp)
    try:
        pp.Container.create_solution(arg, solvent, 'N', **kw)
        outcome = 'returned'
    except (ValueError, TypeError) as e:
        outcome = 'refused'
    except Exception as e:  # noqa
        return [V(f"create_solution | wrong-exception | {feat}", f"{call} raised {type(e).__name__}: {e}", case)], (sc['tag'], 'crash')
    if sc['expect'] == 'refuse' and outcome == 'returned':
        return [V(f"create_solution | accepted-malformed | {feat}", f"{call} must be refused (not one value per solute / not two of "
                  f"the three keywords) but returned", case, 'ValueError', 'returned')], (sc['tag'], outcome)
    if sc['expect'] == 'accept' and outcome == 'refused' and 'quantity' in sc['kw'] and 'concentration' in sc['kw']:
        return [], (sc['tag'], 'refused-overdetermined')      # concentration and quantity of every solute: may be inconsistent
    if sc['expect'] == 'accept' and outcome == 'refused':
        return [V(f"create_solution | refused-feasible | {feat}", f"{call} is well-formed and feasible but was refused", case,
                  'returns', 'refused')], (sc['tag'], outcome)
    return [], (sc['tag'], outcome)


def run(col):
    pp = env.load()
    col.rule = ("complete specification grammar: 6 solute lists x 5 solvents (2 substances, 3 containers) x 4 feasibility levels x "
                "which-two-of-three x every concentration spelling / quantity unit / total unit of the solute kind, + broadcast, "
                "inconsistent over-determined, wrong-kind and argument-shape (one value per solute, two of three keywords) families; each spec is derived from a reference mixture by the "
                "exact-rational model, classified by an exact linear solve (accept / refuse / don't-care) and the returned "
                "solution is checked against every stated constraint by definition; every accepted request is made a second time as a "
                "recipe step and must bake to the same vessels. Non-trivial = distinct (solvent form, "
                "#solutes, mode, mass-based, expectation, outcome, level) classes")
    col.assumptions += ["a solvent container that already holds the solute makes 'solute quantity/concentration' ambiguous: "
                        "only total, aliquot and conservation are judged there",
                        "values are written with 12 significant digits; post-conditions are checked to 1e-6 relative, the bound "
                        "the implementation itself enforces on its residuals"]
    vals = [col.seed % 3] if col.tier == 'quick' else [0, 1, 2]
    THOROUGH['on'] = col.tier == 'thorough'
    for v in vals:
        _G.update(pp=pp, vidx=v)
        sps = list(specs(v))
        res = par.pmap(run_spec, sps)
        classes = set()
        dc = 0
        for sp, (vs, oc) in zip(sps, res):
            col.add(vs)
            classes.add((feature(sp), sp['level'], oc))
            dc += oc[0] == 'dontcare'
        scs = shape_cases()
        sres = par.pmap(run_shape, scs)
        for vs, oc in sres:
            col.add(vs)
            classes.add(('shape',) + oc)
        col.count('transitions', len(scs))
        col.count('traces', len(scs))
        col.count('evaluations', len(scs))
        col.cov.setdefault('argument_shapes', []).append({'valuation': v, 'cases': len(scs),
                                                          'refused': sum(oc[1] == 'refused' for _, oc in sres)})
        col.count('transitions', len(sps))
        col.count('traces', len(sps))
        col.count('evaluations', len(sps))
        n_recipe = sum(1 for _, oc in res if oc[-1] == 'recipe')
        col.count('transitions', n_recipe)
        col.count('traces', n_recipe)
        col.count('evaluations', n_recipe)
        col.count('recipe_variants', n_recipe)
        col.count('states', len(classes))
        col.count('dont_care', dc)
        col.note_nontrivial({report.digest((v, c)) for c in classes})
        col.cov.setdefault('valuations', []).append({'valuation': v, 'specs': len(sps), 'classes': len(classes), 'dont_care': dc,
                                                     'must_accept': sum(oc[0] == 'accept' for _, oc in res),
                                                     'must_refuse': sum(oc[0] == 'refuse' for _, oc in res)})
        col.sample({'spec': sps[len(sps) // 2]})
        col.sample({'spec': sps[7]})


def replay(case):
    pp = env.load()
    _G.update(pp=pp, vidx=case['vidx'])
    if 'shape' in case:
        return run_shape(case['shape'])[0]
    return run_spec(case['spec'])[0]
