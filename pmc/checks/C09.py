"""C09 — get_substance_used reports the net gain of the destinations over the timeframe (ledger from prefix bakes)."""
from .. import tracking

PID = 'C09'


def run(col):
    col.rule = ("every successfully baking program of <= 3 (quick) / 4 (thorough) steps over the 30-action recipe vocabulary x every "
                "stage layout (one stage per step; last stage left open; two consecutive stages at every cut; one stage over every "
                "contiguous range; one open stage over everything) x every substance of the valuation (incl. never-used ones) x "
                "destination sets (default 'plates', every used object, pairs, all) x timeframes x units; oracle = ledger of "
                "per-step contributions (gain of the destinations + discarded) computed from prefix bakes by the reference model; "
                "net decrease => ValueError. Non-trivial = distinct sets of step kinds among the programs")
    col.assumptions += ["noise zone: |true net change| <= (#stored amounts touched) x 10^-precision x 10 is don't-care between "
                        "ValueError and 0", "answers compared at the displayed precision of the unit"]
    tracking.run(col, 'C09')


def replay(case):
    return tracking.replay(case, 'C09')
