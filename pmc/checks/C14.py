"""C14 — quantity and concentration strings mean what SI says (complete string grammar + equivalence through the API)."""
import itertools
import json
import os
from fractions import Fraction as F

from .. import e1, env, par, ref, report, sub
from ..report import V

PID = 'C14'
PREFIXES = ['n', 'u', 'µ', 'm', 'c', 'd', '', 'da', 'k', 'M']
VALUES = ['1', '0.5', '2.5', '10', '1e-3', '.5', '0', '-1', '+2', '1.', '3E2', '0.25']
CVALUES = ['1', '0.25', '2.5', '10', '1e-3']
DVALUES = [None, '1', '10', '0.5', '1e2']


def quantity_strings():
    for v in VALUES:
        for b in ('mol', 'g', 'L', 'M'):
            for p in PREFIXES:
                yield f"{v} {p}{b}"
        yield f"{v} U"


def concentration_strings():
    # (a prefixed activity unit is no quantity on its own - parse_quantity documents the bare U - but a ratio such as kU/g or
    # mU/mL is an ordinary concentration, and the library reads it as such)
    units = [p + b for b in ('mol', 'g', 'L', 'U') for p in PREFIXES]
    for v in CVALUES:
        for n in units:
            for dv in DVALUES:
                for d in units:
                    yield f"{v} {n}/{d}" if dv is None else f"{v} {n}/{dv} {d}"
        for p in PREFIXES:
            yield f"{v} {p}M"
            yield f"{v} {p}m"
        for pc in ('%w/w', '%v/v', '%w/v'):
            yield f"{v} {pc}"


def malformed():
    """Strings (and non-strings) that are not of the documented forms: must raise, for both parsers unless noted."""
    q = ['10mL', '10', 'mL', '', ' ', '10 xL', '10 mX', '10 qg', '10 mLs', '10 mL x', 'ten mL',
         '1,5 mL', '10 m L', '10 Lm', '10 l', '10 ML L', '1e mL', '--1 mL', '1 2 mL', '10 mmmol', '10 kkg', '10 dag g',
         '10 mU', '10 kU', '10 u', '10 m', '10 k', '0x10 mL', '10 mol/L', '5 %w/w', '1 /L']
    c = ['1', 'M', '1 X', '1 mol', '1 g', '1 L', '1 U', '1 mol/', '1 /L', '1 mol//L', '1 mol/L/L',
         '1mol/L', '1 mol/x L', '1 mol/10', '1 mol/10 10 L', '1 xmol/L', '1 mol/xL',
         '1 mol/qg', '1 pmol/zL', 'one mol/L', '1 %', '1 %w', '1 %w/x', '1 %x/w', '1 %/w', '1 % w/w', '1 %W/W',
         '1 mM/L', '1 M/L', '1 m/L', '1 mol/M', '1 mol/m', '1 mol/0 L', '', ' ', '/', '1 /', 'mol/L', '1 mol/L x',
         '1 kat/L', '1 U/kat', '1 mol/mol/mol', '1 mol/1 1 L', '1 g/1e L', '1 n', '1 k', '1 µ']
    non = [10, 1.5, None, ['1 mL'], ('1', 'mL'), b'1 mL', True]
    return q, c, non


# extra white space: the documentation shows exactly one space; a lenient parser may accept these, but then only with
# the meaning of the normalised string (don't-care between rejecting and that)
LENIENT = [('quantity', '10  mL', '10 mL'), ('quantity', ' 10 mL', '10 mL'), ('quantity', '10 mL ', '10 mL'),
           ('quantity', '\t10 mL', '10 mL'), ('quantity', '10 mL\n', '10 mL'), ('quantity', '10\tmL', '10 mL'),
           ('concentration', '1 mol/ L', '1 mol/L'), ('concentration', '1 mol /L', '1 mol/L'),
           ('concentration', '1  mol/L', '1 mol/L'), ('concentration', ' 1 mol/L', '1 mol/L'),
           ('concentration', '1 mol/L ', '1 mol/L'), ('concentration', '1 mol/10  uL', '1 mol/10 uL'),
           ('concentration', '5  %w/w', '5 %w/w')]


def _judge_lenient(item):
    pp = env.load()
    which, s, norm = item
    fn = pp.Unit.parse_quantity if which == 'quantity' else pp.Unit.parse_concentration
    try:
        got = fn(s)
    except Exception:  # noqa
        return None
    if got != fn(norm):
        return V(f"Unit.parse_{which} | accepted-malformed | white-space-variant-with-other-meaning",
                 f"parse_{which}({s!r}) = {got!r} but parse_{which}({norm!r}) = {fn(norm)!r}",
                 {'parser': which + '-malformed', 's': repr(s)}, list(fn(norm)), list(got))
    return None


_G = {}


def _lookalikes(s):
    """Spellings that a normalising parser would confuse with s: they are parsed FIRST, so that what s means does not depend
    on which strings were seen before (a memo keyed by a normalised string; the order is part of the case and reproducible)."""
    out = []
    for t in (s.swapcase(), s.lower(), s.upper(), ' ' + s, s + ' ', s.replace(' ', '  ')):
        if t != s and t not in out:
            out.append(t)
    return out


def _judge_quantity(s):
    pp = env.load()
    try:
        want = ref.parse_quantity(s)
    except ValueError:
        want = None
    for t in _lookalikes(s):
        try:
            pp.Unit.parse_quantity(t)
        except Exception:  # noqa
            pass
    try:
        got = pp.Unit.parse_quantity(s)
    except Exception as e:  # noqa
        got = ('raises', type(e).__name__)
    case = {'parser': 'quantity', 's': s}
    if want is None:
        return None
    base = want[1]
    if got[0] == 'raises':
        return V(f"Unit.parse_quantity | refused-valid | base={base},prefixed={int(len(s.split(' ')[1]) > len(base))}",
                 f"parse_quantity({s!r}) raised {got[1]}; SI: {float(want[0])!r} {base}", case)
    if got[1] != base or abs(got[0] - float(want[0])) > 1e-12 * abs(float(want[0])):
        return V(f"Unit.parse_quantity | parse-value | base={base},prefixed={int(len(s.split(' ')[1]) > len(base))}",
                 f"parse_quantity({s!r}) = {got!r}; SI: ({float(want[0])!r}, {base!r})", case,
                 [float(want[0]), base], list(got))
    return None


def _judge_concentration(s):
    pp = env.load()
    wv = pp.config.default_weight_volume_units
    want = ref.parse_concentration(s, wv)
    for t in _lookalikes(s):
        try:
            pp.Unit.parse_concentration(t)
        except Exception:  # noqa
            pass
    try:
        got = pp.Unit.parse_concentration(s)
    except Exception as e:  # noqa
        got = ('raises', type(e).__name__)
    case = {'parser': 'concentration', 's': s, 'cfg': json.loads(os.environ.get('PMC_CONFIG_OVERRIDES') or '{}')}
    m = s.split(' ', 1)[1]
    feat = f"num={want[1]},den={want[2]},form={'percent' if '%' in s else 'molar' if '/' not in s else 'ratio+count' if m.count(' ') else 'ratio'}"
    if got[0] == 'raises':
        return V(f"Unit.parse_concentration | refused-valid | {feat}",
                 f"parse_concentration({s!r}) raised {got[1]}; SI: {float(want[0])!r} {want[1]}/{want[2]}", case)
    prec = pp.config.internal_precision
    if (got[1], got[2]) != (want[1], want[2]) or \
            abs(got[0] - float(want[0])) > 0.6 * 10.0 ** -prec + 1e-12 * abs(float(want[0])):
        return V(f"Unit.parse_concentration | parse-value | {feat}",
                 f"parse_concentration({s!r}) = {got!r}; SI: ({float(want[0])!r}, {want[1]!r}, {want[2]!r})", case,
                 [float(want[0]), want[1], want[2]], list(got))
    return None


def _judge_malformed(item):
    pp = env.load()
    which, s = item
    fn = pp.Unit.parse_quantity if which == 'quantity' else pp.Unit.parse_concentration
    try:
        got = fn(s)
    except Exception:  # noqa
        return None
    return V(f"Unit.parse_{which} | accepted-malformed | {'non-string' if not isinstance(s, str) else 'string'}",
             f"parse_{which}({s!r}) must be rejected but returned {got!r}", {'parser': which + '-malformed', 's': repr(s)},
             'error', list(got) if isinstance(got, tuple) else repr(got))


def _judge_malformed_api(s):
    """A malformed quantity string is refused wherever a quantity is expected, not only by the parser."""
    pp = env.load()
    subs = e1.substances(pp, 0)
    water = subs['water']
    C = pp.Container
    stock = C('stock', initial_contents=[(water, '50 mL')])
    salty = C('salty', initial_contents=[(water, '50 mL'), (subs['nacl'], '100 mmol')])

    def recipe_transfer():
        r = pp.Recipe()
        d = C('d')
        r.uses(salty, d)
        r.transfer(salty, d, s)
        r.bake()
    out = []
    for label, call in (('Unit.convert', lambda: pp.Unit.convert(water, s, 'mL')),
                        ('Container()', lambda: C('x', initial_contents=[(water, s)])),
                        ('Container(max_volume)', lambda: C('x', s)),
                        ('Container.transfer', lambda: C.transfer(stock, C('d'), s)),
                        ('Container.fill_to', lambda: stock.fill_to(water, s)),
                        ('Plate(max_volume_per_well)', lambda: pp.Plate('p', s)),
                        ('Plate.transfer', lambda: pp.Plate.transfer(salty, pp.Plate('p', '1 mL', rows=1, columns=2), s)),
                        ('Plate.fill_to', lambda: pp.Plate('p', '1 mL', rows=1, columns=2).fill_to(water, s)),
                        ('create_solution(total_quantity)', lambda: C.create_solution(subs['nacl'], water, 'x', concentration='0.1 M',
                                                                                      total_quantity=s)),
                        ('create_solution(quantity)', lambda: C.create_solution(subs['nacl'], water, 'x', concentration='0.1 M',
                                                                                quantity=s)),
                        ('create_solution_from(quantity)', lambda: C.create_solution_from(salty, subs['nacl'], '0.1 M', water, s)),
                        ('Recipe.transfer', recipe_transfer)):
        try:
            call()
        except Exception:  # noqa
            continue
        out.append(V(f"{label} | accepted-malformed | quantity-string",
                     f"{label} accepted {s!r} where a quantity is expected (it is not a quantity string of the documented forms)",
                     {'parser': 'quantity-malformed-api', 's': repr(s)}, 'error', 'returned'))
    return out


def _judge_capacity_kind(s):
    """A well-formed quantity of another kind (a mass, an amount, an activity, a molarity) is not a capacity: 'v pU' denotes v*p
    of base unit U, so it cannot be read as a volume."""
    pp = env.load()
    out = []

    def recipe_container():
        r = pp.Recipe()
        r.create_container('n', s)
        r.bake()
    for label, call in (('Container(max_volume)', lambda: pp.Container('x', s)), ('Plate(max_volume_per_well)', lambda: pp.Plate('p', s)),
                        ('Recipe.create_container(max_volume)', recipe_container)):
        try:
            call()
        except Exception:  # noqa
            continue
        out.append(V(f"{label} | accepted-malformed | capacity-of-another-kind",
                     f"{label} accepted {s!r} as a capacity: a quantity that is not a volume was given the meaning of one",
                     {'parser': 'capacity-kind', 's': repr(s)}, 'error', 'returned'))
    return out


# ---- equivalent spellings are interchangeable through the API --------------------------------------------------------
CONC_CLASSES = [
    ['1 M', '1 mol/L', '1 mmol/mL', '0.01 mmol/10 uL', '1000 mM', '1 umol/uL', '0.001 kmol/L', '1e-3 mol/mL', '10 mmol/cL'],
    ['5 %w/w', '0.05 g/g', '50 mg/g', '50 g/kg', '0.5 g/10 g', '5 cg/g'],
    ['0.5 m', '0.5 mol/kg', '0.5 mmol/g', '500 mm', '0.05 mol/100 g'],
    ['20 %v/v', '0.2 L/L', '200 mL/L', '0.2 mL/mL', '2 uL/10 uL'],
    ['0.1 g/mL', '100 g/L', '100 mg/mL', '1 g/10 mL', '0.1 kg/L'],
]
QTY_CLASSES = [['10 mL', '0.01 L', '10000 uL', '1 cL', '0.1 dL', '1e-2 L', '10000000 nL'],
               ['2 g', '2000 mg', '0.002 kg', '2e6 ug', '0.2 dag'],
               ['3 mmol', '0.003 mol', '3000 umol', '3e-6 kmol']]


def _contents(c, pp):
    return tuple(sorted((s.name, a) for s, a in c.contents.items()))


def _same(a, b):
    if len(a) != len(b):
        return False
    for (n1, x), (n2, y) in zip(a, b):
        if n1 != n2 or abs(x - y) > 1e-9 * max(abs(x), abs(y)) + 1e-9:
            return False
    return True


def equivalence(pp):
    """Every member of a class, used in place of the first, must build an equal container."""
    subs = e1.substances(pp, 0)
    water, nacl, dmso = subs['water'], subs['nacl'], subs['dmso']
    C = pp.Container
    viols, n = [], 0
    stock = C('stock', initial_contents=[(water, '50 mL'), (nacl, '100 mmol')])
    stock_v = C('stock', initial_contents=[(water, '50 mL'), (dmso, '25 mL')])

    def uses_of_conc(c):
        solute = dmso if ('v/v' in c or 'L/L' in c or 'mL/' in c and 'g' not in c or 'uL/' in c) else nacl
        out = {'create_solution': lambda: C.create_solution(solute, water, 'x', concentration=c, total_quantity='20 mL'),
               'create_solution+quantity': lambda: C.create_solution(solute, water, 'x', concentration=c, quantity='0.3 g')}
        st = stock if solute is nacl else stock_v
        out['dilute'] = lambda: st.dilute(solute, c, water)
        out['create_solution_from'] = lambda: C.create_solution_from(st, solute, c, water, '10 mL', 'x')[1]
        return out
    for cls in CONC_CLASSES:
        base = {k: f for k, f in uses_of_conc(cls[0]).items()}
        base_res = {}
        for k, f in base.items():
            try:
                base_res[k] = _contents(f(), pp)
            except Exception as e:  # noqa
                base_res[k] = 'raises ' + type(e).__name__
        for c in cls[1:]:
            for k, f in uses_of_conc(c).items():
                n += 1
                try:
                    got = _contents(f(), pp)
                except Exception as e:  # noqa
                    got = 'raises ' + type(e).__name__
                want = base_res[k]
                ok = (got == want) if isinstance(got, str) or isinstance(want, str) else _same(got, want)
                if not ok:
                    viols.append(V(f"{k} | spelling-not-equivalent | concentration",
                                   f"{k} with {c!r} gives {got}, with the equivalent {cls[0]!r} gives {want}",
                                   {'parser': 'equivalence'}, want, got))
    # ... and everywhere means everywhere: the very same string must be treated alike by the container operation and by
    # the corresponding recipe step (whose pre-checks parse the concentration on their own)
    mass_per_volume = ['29.2214 g/L', '29.2214 mg/mL', '0.292214 g/10 mL', '0.0292214 g/mL', '2.92214 %w/v', '29221.4 ug/mL']
    stock_n = stock
    for c in [x for cls in CONC_CLASSES for x in cls] + mass_per_volume:
        solute = dmso if ('v/v' in c or 'L/L' in c or ('mL/' in c and 'g' not in c.split('/')[0]) or 'uL/' in c) else nacl

        stock = stock_n if solute is nacl else stock_v

        def direct_and_recipe(kind):
            if kind == 'dilute':
                d = lambda: stock.dilute(solute, c, water)                                            # noqa
                def r():
                    rc = pp.Recipe()
                    rc.uses(stock)
                    rc.dilute(stock, solute, c, water)
                    return rc.bake()['stock']
            elif kind == 'create_solution_from':
                d = lambda: C.create_solution_from(stock, solute, c, water, '10 mL', 'x')[1]          # noqa
                def r():
                    rc = pp.Recipe()
                    rc.uses(stock)
                    rc.create_solution_from(stock, solute, c, water, '10 mL', 'x')
                    return rc.bake()['x']
            else:
                d = lambda: C.create_solution(solute, water, 'x', concentration=c, total_quantity='20 mL')   # noqa
                def r():
                    rc = pp.Recipe()
                    rc.create_solution(solute, water, 'x', concentration=c, total_quantity='20 mL')
                    return rc.bake()['x']
            return d, r
        for kind in ('dilute', 'create_solution_from', 'create_solution'):
            n += 1
            d, r = direct_and_recipe(kind)
            outs = []
            for f in (d, r):
                try:
                    outs.append(_contents(f(), pp))
                except Exception as e:  # noqa
                    outs.append('raises')
            same = (outs[0] == outs[1]) if 'raises' in outs else _same(outs[0], outs[1])
            if not same:
                viols.append(V(f"{kind} | spelling-not-equivalent | recipe-step-vs-container",
                               f"{kind} with the concentration {c!r}: the container operation gives {outs[0]}, the same call as a "
                               f"recipe step gives {outs[1]}", {'parser': 'equivalence'}, outs[0], outs[1]))
    # a list of concentrations in different spellings / unit pairs means the same whatever the order of the solutes
    so4 = subs['na2so4']
    for c1, c2 in (('0.1 M', '0.2 m'), ('0.1 mol/L', '0.2 mol/kg'), ('5 g/L', '1 %w/w'), ('0.05 mol/L', '0.002 mol/mol'),
                   ('20 mg/mL', '0.1 m'), ('0.3 M', '30 g/kg')):
        n += 1
        outs = []
        for sol, cs in (([nacl, so4], [c1, c2]), ([so4, nacl], [c2, c1])):
            try:
                outs.append(_contents(C.create_solution(sol, water, 'x', concentration=cs, total_quantity='50 mL'), pp))
            except Exception as e:  # noqa
                outs.append('raises ' + type(e).__name__)
        same = (outs[0] == outs[1]) if any(isinstance(o, str) for o in outs) else _same(outs[0], outs[1])
        if not same:
            viols.append(V("create_solution | spelling-not-equivalent | order-of-solutes-with-mixed-unit-pairs",
                           f"create_solution([nacl, na2so4], concentration=[{c1!r}, {c2!r}]) gives {outs[0]} but the same request "
                           f"with the two solutes listed in the other order gives {outs[1]}", {'parser': 'equivalence'},
                           outs[0], outs[1]))
    # per-solute quantities: the same string for two solutes means the same as two equivalent spellings of it, and as the one
    # string given once for all
    for q1, q2 in (('5 g', '5000 mg'), ('2 mL', '2000 uL'), ('30 mmol', '0.03 mol')):
        outs = []
        for qs in ([q1, q2], [q1, q1], q1):
            n += 1
            try:
                outs.append(_contents(C.create_solution([nacl, so4] if not q1.endswith('L') else [dmso, subs['tea']], water, 'x',
                                                        quantity=qs, total_quantity='500 mL'), pp))
            except Exception as e:  # noqa
                outs.append('raises ' + type(e).__name__)
        for form_, o in (('the same string twice', outs[1]), ('one string for all solutes', outs[2])):
            same = (o == outs[0]) if isinstance(o, str) or isinstance(outs[0], str) else _same(o, outs[0])
            if not same:
                viols.append(V("create_solution | spelling-not-equivalent | per-solute-quantities",
                               f"create_solution of two solutes with quantity=[{q1!r}, {q2!r}] gives {outs[0]}, with {form_} ({q1!r}) "
                               f"{o}", {'parser': 'equivalence'}, outs[0], o))
    src = C('src', initial_contents=[(water, '50 mL'), (nacl, '100 mmol')])
    dst = C('dst', '100 mL')
    for cls in QTY_CLASSES:
        def uses(q):
            liquid = q.endswith('L')
            return {'Container()': lambda: C('x', initial_contents=[(water if not q.endswith('mol') else nacl, q)]),
                    'transfer': lambda: C.transfer(src, dst, q)[1],
                    'fill_to': lambda: C('y', initial_contents=[(nacl, '1 mmol')]).fill_to(water, q),
                    'create_solution.total': lambda: C.create_solution(nacl, water, 'x', concentration='0.1 M', total_quantity=q),
                    'max_volume': (lambda: C('x', q).max_volume) if liquid else (lambda: 0),
                    'Unit.convert': lambda: pp.Unit.convert(water, q, 'umol')}
        base_res = {}
        for k, f in uses(cls[0]).items():
            r = f()
            base_res[k] = _contents(r, pp) if hasattr(r, 'contents') else r
        for q in cls[1:]:
            for k, f in uses(q).items():
                n += 1
                try:
                    r = f()
                    got = _contents(r, pp) if hasattr(r, 'contents') else r
                except Exception as e:  # noqa
                    got = 'raises ' + type(e).__name__
                want = base_res[k]
                if isinstance(got, tuple) and isinstance(want, tuple):
                    ok = _same(got, want)
                elif isinstance(got, str) or isinstance(want, str):
                    ok = got == want
                else:
                    ok = abs(got - want) <= 1e-9 * abs(want) + 1e-9
                if not ok:
                    viols.append(V(f"{k} | spelling-not-equivalent | quantity",
                                   f"{k} with {q!r} gives {got}, with the equivalent {cls[0]!r} gives {want}",
                                   {'parser': 'equivalence'}, want, got))
    return viols, n


def worker(arg):
    """Concentration grammar + percent forms under the configuration of this process."""
    env.load()
    strings = list(concentration_strings())
    res = par.pmap(_judge_concentration, strings)
    return {'violations': [v for v in res if v], 'n': len(strings)}


def run(col):
    pp = env.load()
    col.rule = ("complete grammars: 12 value spellings x 10 prefixes x {mol, g, L, M} + U quantity strings; concentration "
                "strings value x prefixed numerator x optional count x prefixed denominator over {mol, g, L, U}, M and m with "
                "every prefix, the three percent forms (under two settings of default_weight_volume_units, separate "
                "processes); ~150 malformed strings and non-strings x both parsers; 5 concentration and 3 quantity "
                "equivalence classes pushed through create_solution, dilute, create_solution_from, Container(), transfer, "
                "fill_to, capacity. Oracle: independent regular-expression parser with the SI table written out. "
                "Non-trivial = number of judged strings (every one is a distinct input)")
    col.assumptions += ["the parsed concentration is compared at the documented internal precision (1e-10 absolute)",
                        "'p' (pico) is documented but not implemented: rejected or parsed as 1e-12, both accepted (don't-care)"]
    qs = list(quantity_strings())
    res = par.pmap(_judge_quantity, qs)
    col.add([v for v in res if v])
    n = len(qs)
    cfgs = [{}, {'default_weight_volume_units': 'g/L'}] if col.tier == 'quick' else \
        [{}, {'default_weight_volume_units': 'g/L'}, {'default_weight_volume_units': 'mg/mL'}]
    procs = [(c, sub.start_in_config('pmc.checks.C14', 'worker', c)) for c in cfgs]
    for c, p in procs:
        r = sub.finish(p, f"C14 {c}")
        col.add(r['violations'])
        n += r['n']
        col.cov.setdefault('configs', []).append({'config': c, 'concentration_strings': r['n']})
    mq, mc, non = malformed()
    items = [('quantity', s) for s in mq + non] + [('concentration', s) for s in mc + non]
    res = [_judge_malformed(i) for i in items] + [_judge_lenient(i) for i in LENIENT]
    col.add([v for v in res if v])
    n += len(items) + len(LENIENT)
    api_strings = [x for x in mq if isinstance(x, str)] + ['1,000 uL', '2,5 mL', '0,5 g', '10 mL ', ' 10 mL', '10 ml', '1e3,0 uL',
                                                              # a concentration is not a quantity, whatever the parser's internals
                                                              # make of the letter M
                                                              '5 mM', '0.005 M', '5000 uM', '1 M', '2 mol/L', '1 %v/v']
    for x in api_strings:
        col.add(_judge_malformed_api(x))
    n += 12 * len(api_strings)
    kinds = ['5 mg', '5 g', '2 kg', '5 mmol', '1 mol', '3 umol', '2 U', '5 mM', '1 M']
    for x in kinds:
        col.add(_judge_capacity_kind(x))
    n += 3 * len(kinds)
    ev, k = equivalence(pp)
    col.add(ev)
    n += k
    col.count('transitions', n)
    col.count('traces', n)
    col.count('evaluations', n)
    col.count('states', n)
    col.counters['distinct_nontrivial'] = n - len(items)
    col.cov.update(quantity_strings=len(qs), malformed=len(items), equivalence_calls=k)
    col.sample({'string': '0.25 nmol/10 uL', 'expected': [2.5e-05, 'mol', 'L']})
    col.sample({'string': '2.5 dag', 'expected': [25.0, 'g']})
    col.sample({'malformed': '1 mol/L/L'})


def replay(case):
    pp = env.load()
    if case['parser'] == 'quantity':
        v = _judge_quantity(case['s'])
        return [v] if v else []
    if case['parser'] == 'concentration':
        if case.get('cfg'):
            r = sub.run_in_config('pmc.checks.C14', 'worker', case['cfg'])
            return r['violations']
        v = _judge_concentration(case['s'])
        return [v] if v else []
    if case['parser'] == 'capacity-kind':
        import ast
        return _judge_capacity_kind(ast.literal_eval(case['s']))
    if case['parser'] == 'quantity-malformed-api':
        import ast
        return _judge_malformed_api(ast.literal_eval(case['s']))
    if case['parser'].endswith('-malformed'):
        mq, mc, non = malformed()
        vs = []
        for which, lst in (('quantity', mq + non), ('concentration', mc + non)):
            for s in lst:
                v = _judge_malformed((which, s))
                if v:
                    vs.append(v)
        vs += [v for v in map(_judge_lenient, LENIENT) if v]
        return vs
    return equivalence(pp)[0]
