"""C12 — create_solution_from dilutes a stock as requested and conserves material (E5 specifications)."""
import itertools
from fractions import Fraction as F

from .. import e1, env, par, ref, report
from ..report import V
from . import C05

PID = 'C12'

STOCKS = {
    'nacl-water': (('water', '20 mL'), ('nacl', '20 mmol')),
    'tea-water': (('water', '20 mL'), ('tea', '3 mL')),
    'nacl-dmso': (('dmso', '20 mL'), ('nacl', '10 mmol')),
    'ternary': (('water', '20 mL'), ('nacl', '20 mmol'), ('na2so4', '4 mmol')),
    'enzyme-bystander': (('water', '20 mL'), ('nacl', '20 mmol'), ('lipase', '4 U')),
    # the stock also holds a *twin* of the solute (a hydrate: same name, another molar mass) - it is a bystander, not the solute
    'twin-pair': (('water', '20 mL'), ('nacl', '20 mmol'), ('nacl_h', '6 mmol')),
}
SOLUTE = {'nacl-water': 'nacl', 'tea-water': 'tea', 'nacl-dmso': 'nacl', 'ternary': 'nacl', 'enzyme-bystander': 'nacl',
          'twin-pair': 'nacl'}
OWN_SOLVENT = {'nacl-water': 'water', 'tea-water': 'water', 'nacl-dmso': 'dmso', 'ternary': 'water', 'enzyme-bystander': 'water',
               'twin-pair': 'water'}
SOLVENT_CONTAINERS = {'VP': (('@own', '30 mL'),), 'VS': (('@own', '30 mL'), ('@solute', '@small'))}
CONC_UNITS = ['M', 'mM', 'm', 'mol/L', 'mmol/mL', 'g/L', 'g/mL', 'g/g', 'g/kg', 'mol/mol', 'L/L', 'mL/L', '%w/w', '%v/v', '%w/v',
              'mg/10 mL']
RATIOS = [F(1, 10), F(1, 2), F(1), F(2)]
Q_UNITS = ['L', 'mL', 'uL', 'g', 'mg', 'mol', 'mmol']
SIZES = {'small': F(1, 10), 'all': F(1), 'more': F(3, 2),       # fraction of the source the request needs
         'minute': F(1, 100000),                                  # sub-microlitre preparations
         'trace': F(1234567, 10 ** 13)}                           # about a ten-millionth of the stock (nanolitres), not a round fraction


THOROUGH = {'on': False}
STOCKS_THOROUGH = {
    'na2so4-water': (('water', '20 mL'), ('na2so4', '5 mmol')),
    'dmso-tea': (('tea', '15 mL'), ('dmso', '4 mL')),
    'quaternary': (('water', '12 mL'), ('dmso', '6 mL'), ('nacl', '9 mmol'), ('na2so4', '2 mmol')),
    'dilute-stock': (('water', '40 mL'), ('nacl', '0.3 mmol')),
}
SOLUTE.update({'na2so4-water': 'na2so4', 'dmso-tea': 'dmso', 'quaternary': 'nacl', 'dilute-stock': 'nacl'})
OWN_SOLVENT.update({'na2so4-water': 'water', 'dmso-tea': 'tea', 'quaternary': 'water', 'dilute-stock': 'water'})
Q_UNITS_THOROUGH = ['L', 'mL', 'uL', 'dL', 'g', 'mg', 'kg', 'mol', 'mmol', 'umol']
RATIOS_THOROUGH = [F(1, 100), F(1, 10), F(1, 3), F(1, 2), F(9, 10), F(1), F(11, 10), F(2)]


def specs():
    th = THOROUGH['on']
    if th:
        STOCKS.update(STOCKS_THOROUGH)
    for stock in STOCKS:
        for solvent in ('own', 'other', 'VP', 'VS'):
            for cu, ratio, qu, size in itertools.product(CONC_UNITS, RATIOS_THOROUGH if th else RATIOS,
                                                         Q_UNITS_THOROUGH if th else Q_UNITS, SIZES):
                if qu not in ('mL', 'g', 'mmol') and (cu not in ('M', 'g/g', 'mol/mol', '%w/v') or size != 'small'):
                    continue
                for cap in ('inf', 'tight'):
                    # 'tight': the stock (and the solvent container) sit in vessels with 2 % head-room; the new solution is a new
                    # vessel, so what can be prepared does not depend on the size of the vessels the inputs came in
                    yield {'stock': stock, 'solvent': solvent, 'cu': cu, 'ratio': [ratio.numerator, ratio.denominator], 'qu': qu,
                           'size': size, 'cap': cap}
    # the solute asked for is a twin of what the stock holds (same name, another substance): the stock cannot reach any non-zero
    # concentration of it, so the request has to be refused
    for stock in ('nacl-water', 'ternary'):
        for solvent in ('own', 'other', 'VP', 'VS'):
            for cu, ratio in itertools.product(CONC_UNITS, (F(1, 10), F(1, 2))):
                yield {'stock': stock, 'solvent': solvent, 'cu': cu, 'ratio': [ratio.numerator, ratio.denominator], 'qu': 'mL',
                       'size': 'small', 'cap': 'inf', 'ask': 'nacl_h'}


_G = {}


def run_spec(sp):
    pp, vidx = _G['pp'], _G['vidx']
    subs = e1.substances(pp, vidx)
    C = pp.Container
    source = C('stock', initial_contents=[(subs[n], q) for n, q in STOCKS[sp['stock']]])
    tight = sp.get('cap') == 'tight'
    if tight:
        source = C('stock', f"{source.volume * 1.02!r} {pp.config.volume_storage_unit}",
                   [(subs[n], q) for n, q in STOCKS[sp['stock']]])
    solute = subs[SOLUTE[sp['stock']]]
    own = OWN_SOLVENT[sp['stock']]
    other = 'dmso' if own == 'water' else 'water' if own != 'tea' else 'water'
    if sp['solvent'] in SOLVENT_CONTAINERS:
        cont = []
        for n, q in SOLVENT_CONTAINERS[sp['solvent']]:
            n = own if n == '@own' else solute.name
            q = ('0.5 mmol' if not solute.is_liquid() else '0.2 mL') if q == '@small' else q
            cont.append((subs[n], q))
        solvent = C('solv', initial_contents=cont)
        if tight:
            solvent = C('solv', f"{solvent.volume * 1.02!r} {pp.config.volume_storage_unit}", cont)
        T_v = lambda u: ref.measure(pp, solvent.contents, u)               # noqa  (per fraction of the container)
        N_v = lambda u: ref.measure(pp, {solute: solvent.contents.get(solute, 0)}, u)   # noqa
    else:
        solvent = subs[own if sp['solvent'] == 'own' else other]
        rsv = ref.rsub(solvent)
        T_v = lambda u: ref.per_base(rsv, u)                                # noqa  (per mol)
        N_v = lambda u: F(0)                                                # noqa
    mult, num, den = ref.parse_concentration('1 ' + sp['cu'])
    stock_c = ref.conc(pp, source.contents, solute, num, den)
    if not stock_c:
        return [], ('skip',)
    ratio = F(*sp['ratio'])
    cstr = C05.conc_str(stock_c * ratio, sp['cu'])
    c, _, _ = ref.parse_concentration(cstr)
    pf, qb = ref.split_unit(sp['qu'])
    # choose the requested total so that the request needs the fraction SIZES[size] of the source
    lam = SIZES[sp['size']]
    N_s = ref.measure(pp, {solute: source.contents[solute]}, num)
    D_s = ref.measure(pp, source.contents, den)
    # concentration row: lam*(N_s - c*D_s) + b*(N_v - c*D_v) = 0
    denom = N_v(num) - c * T_v(den)
    if denom == 0:
        return [], ('skip',)
    b = -lam * (N_s - c * D_s) / denom
    Q = lam * ref.measure(pp, source.contents, qb) + b * T_v(qb)
    if Q <= 0:
        # ratio >= 1: no non-negative amount of solvent reaches the target; request an arbitrary small total instead
        Q = ref.measure(pp, source.contents, qb) / 10
    qstr = C05.fmt(Q / pf, sp['qu'])
    Qp, _ = ref.parse_quantity(qstr)
    # exact classification from the parsed strings
    r = ref.solve_exact([[N_s - c * D_s, N_v(num) - c * T_v(den)], [ref.measure(pp, source.contents, qb), T_v(qb)]], [F(0), Qp])
    is_c = sp['solvent'] in SOLVENT_CONTAINERS
    if r[0] != 'unique':
        expect, why = 'either', 'singular'
    else:
        ls, bb = r[1]
        eps = F(1, 10 ** 6)
        vol_b = bb * T_v('L')                     # litres of solvent (or of solvent-container content) needed
        if ls < -eps or vol_b < -F(1, 10 ** 9) or ls > 1 + F(1, 1000) or (is_c and bb > 1 + F(1, 1000)):
            expect, why = 'refuse', f"needs {float(ls):.4g} of the source and {float(vol_b) * 1000:.4g} mL of solvent"
        elif ls > 1 - F(1, 1000) or (is_c and bb > 1 - F(1, 1000)) or vol_b < F(1, 10 ** 8) or ls < eps:
            expect, why = 'either', 'on a boundary'
        else:
            expect, why = 'accept', ''
    case = {'vidx': vidx, 'spec': sp}
    call = f"create_solution_from({sp['stock']}, {solute.name}, {cstr!r}, {sp['solvent']}, {qstr!r})"
    feat = (f"stock={sp['stock']},solvent={'container' if is_c else 'substance'},num={num},den={den},qty={qb}"
            + (',tight-vessels' if tight else ''))
    fps = (e1.exact_obj(source), e1.exact_obj(solvent))
    env.clear_caches(pp)
    # what was prepared from this stock before does not matter: every other solute of the stock is asked for first (half its
    # molarity, 1 mL) - part of the judged and replayed case
    for o_ in list(source.contents):
        if o_ is not solute and e1.ident(o_) != e1.ident(solute) and o_.name != own and not o_.is_enzyme():
            try:
                c_o = ref.conc(pp, source.contents, o_, 'mol', 'L')
                C.create_solution_from(source, o_, C05.conc_str(c_o / 2, 'M'), subs[own], '1 mL', 'earlier')
            except Exception:  # noqa
                pass
    if sp.get('ask'):
        ask = subs[sp['ask']]
        call = call.replace(f", {solute.name}, ", f", <{sp['ask']}: a twin of {solute.name}>, ")
        try:
            C.create_solution_from(source, ask, cstr, solvent, qstr, 'N')
        except ValueError:
            return [], ('refuse', 'ValueError')
        except Exception as e:  # noqa
            return [V(f"create_solution_from | wrong-exception | absent-solute,{feat}", f"{call} raised {type(e).__name__}: {e}",
                      case)], ('refuse', type(e).__name__)
        return [V(f"create_solution_from | accepted-infeasible | absent-solute,{feat}",
                  f"{call}: the stock holds none of the requested solute (only a substance of the same name) but the call returned",
                  case)], ('refuse', 'returned')
    try:
        res = C.create_solution_from(source, solute, cstr, solvent, qstr, 'N')
    except ValueError as e:
        if expect == 'accept':
            return [V(f"create_solution_from | refused-feasible | {feat}", f"{call} is feasible but raised "
                      f"{type(e).__name__}: {e}", case, 'returns', f"{type(e).__name__}: {e}")], (expect, 'ValueError')
        return [], (expect, 'ValueError')
    except Exception as e:  # noqa
        return [V(f"create_solution_from | wrong-exception | {feat}", f"{call} raised {type(e).__name__}: {e}", case)], \
            (expect, type(e).__name__)
    if expect == 'refuse':
        return [V(f"create_solution_from | accepted-infeasible | {feat}", f"{call} cannot be met ({why}) but returned", case)], \
            (expect, 'returned')
    if (e1.exact_obj(source), e1.exact_obj(solvent)) != fps:
        return [V(f"create_solution_from | argument-mutated | {feat}", f"{call} modified an argument", case)], (expect, 'returned')
    if is_c:
        if len(res) != 3:
            return [V(f"create_solution_from | wrong-result-shape | {feat}", f"{call} returned {len(res)} objects", case)], (expect, 'shape')
        rsrc, rsolv, new = res
    else:
        if len(res) != 2:
            return [V(f"create_solution_from | wrong-result-shape | {feat}", f"{call} returned {len(res)} objects", case)], (expect, 'shape')
        (rsrc, new), rsolv = res, None
    rel = 1e-6 + 10.0 ** -pp.config.internal_precision / float(c)
    got_t = ref.measure(pp, new.contents, qb)
    # every amount is stored with the documented resolution (10^-precision of its storage unit; 1e-10 U of an enzyme at 1 U/mL
    # is 1e-7 uL): at nanolitre scale that is visible in the total and in the concentration
    res = 10.0 ** -pp.config.internal_precision

    def quantum(unit):
        return float(sum(ref.base_amount(pp, ref.rsub(x), res) * ref.per_base(ref.rsub(x), unit) for x in new.contents))
    if abs(float(got_t) - float(Qp)) > 1e-6 * float(Qp) + 2 * quantum(qb):
        return [V(f"create_solution_from | constraint-missed | total,{feat}",
                  f"{call}: total {float(got_t / pf)!r} {sp['qu']}, requested {float(Qp / pf)!r}", case, float(Qp / pf),
                  float(got_t / pf))], (expect, 'returned')
    got_c = ref.conc(pp, new.contents, solute, num, den)
    d_new = float(ref.measure(pp, new.contents, den))
    n_new = float(ref.measure(pp, {solute: new.contents.get(solute, 0.0)}, num))
    rel += 2 * (quantum(den) / d_new if d_new else 0.0) + 2 * (quantum(num) / n_new if n_new else 0.0)
    if got_c is None or abs(float(got_c) - float(c)) > rel * float(c):
        return [V(f"create_solution_from | constraint-missed | concentration,{feat}",
                  f"{call}: concentration {float(got_c / mult) if got_c is not None else None!r} {sp['cu']}, requested "
                  f"{float(c / mult)!r} (stock {float(stock_c / mult)!r})", case, float(c / mult),
                  float(got_c / mult) if got_c is not None else None)], (expect, 'returned')
    # composition: uniform aliquot of the source (+ of the solvent container) + pure solvent only; nothing lost
    took = {s: a - rsrc.contents.get(s, 0.0) for s, a in source.contents.items()}
    fr = None
    for s, a in source.contents.items():
        f_s = took[s] / a if a else 0.0
        if fr is None:
            fr = f_s
        elif abs(f_s - fr) > 1e-6 * abs(fr) + 1e-9:
            return [V(f"create_solution_from | non-uniform-aliquot | {feat}", f"{call}: the source was not drawn uniformly "
                      f"({fr!r} vs {f_s!r} for {s.name})", case)], (expect, 'returned')
    if set(rsrc.contents) - set(source.contents) or any(v < -1e-9 for v in took.values()):
        return [V(f"create_solution_from | not-conserved | {feat}", f"{call}: residual source gained material", case)], (expect, 'returned')
    tookv = {}
    if is_c:
        tookv = {s: a - rsolv.contents.get(s, 0.0) for s, a in solvent.contents.items()}
        fv = None
        for s, a in solvent.contents.items():
            f_s = tookv[s] / a if a else 0.0
            if fv is None:
                fv = f_s
            elif abs(f_s - fv) > 1e-6 * abs(fv) + 1e-9:
                return [V(f"create_solution_from | non-uniform-aliquot | solvent-container,{feat}",
                          f"{call}: the solvent container was not drawn uniformly", case)], (expect, 'returned')
    pure = solvent if not is_c else None
    for s in set(new.contents) | set(took) | set(tookv):
        inn = new.contents.get(s, 0.0)
        out = took.get(s, 0.0) + tookv.get(s, 0.0)
        if s == pure:
            if inn < out - 1e-6 * abs(out) - 1e-9:
                return [V(f"create_solution_from | not-conserved | {feat}", f"{call}: {s.name} lost", case)], (expect, 'returned')
        elif abs(inn - out) > 1e-6 * abs(out) + 1e-9:
            return [V(f"create_solution_from | not-conserved | {feat}",
                      f"{call}: the inputs lost {out!r} of {s.name} but the new solution holds {inn!r}", case, out, inn)], \
                (expect, 'returned')
    # the residual vessels are the input vessels (name, capacity); no returned vessel is over-full
    from .. import monitors
    for before, after, what in ((source, rsrc, 'source'), (solvent if is_c else None, rsolv, 'solvent container')):
        if before is not None and (after.name != before.name or after.max_volume != before.max_volume):
            return [V(f"create_solution_from | identity-changed | {feat}", f"{call}: the residual {what} is {after.name!r} with capacity "
                      f"{after.max_volume!r}, it was {before.name!r} with {before.max_volume!r}", case)], (expect, 'returned')
    for o in (rsrc, rsolv, new):
        bad = o is not None and monitors.sane_container(pp, o)
        if bad:
            return [V(f"create_solution_from | impossible-result | {feat}", f"{call}: returned {o.name!r} with {bad}", case)], \
                (expect, 'returned')
    return [], (expect, 'returned')


def run(col):
    pp = env.load()
    col.rule = ("6 stocks (binary solid/liquid solute, dense solvent, ternary, enzyme bystander, a twin of the solute as bystander) x solvent {own, another liquid, "
                "container of pure solvent, container holding some solute} x 16 concentration spellings x ratio to the stock "
                "{0.1, 0.5, 1, 2} x 7 quantity units x size {a tenth of the stock, all of it, more} x input vessels {unlimited, 2 % "
                "head-room}; the request is derived and "
                "classified by an exact 2x2 rational solve, the result judged by definition (total, concentration, uniform "
                "aliquots, conservation); plus requests for a twin of the solute the stock holds (must be refused). Non-trivial = distinct (stock, solvent form, units, size, ratio, expectation, outcome)")
    col.assumptions += ["ratio 1 and requests that need exactly the whole stock are don't-care (boundary)"]
    vals = [col.seed % 3] if col.tier == 'quick' else [0, 1, 2]
    THOROUGH['on'] = col.tier == 'thorough'
    for v in vals:
        _G.update(pp=pp, vidx=v)
        sps = list(specs())
        res = par.pmap(run_spec, sps)
        classes = set()
        for sp, (vs, oc) in zip(sps, res):
            col.add(vs)
            classes.add((sp['stock'], sp['solvent'], sp['cu'], ref.split_unit(sp['qu'])[1], sp['size'], tuple(sp['ratio']), sp['cap'],
                         sp.get('ask'), oc))
        col.count('transitions', len(sps))
        col.count('traces', len(sps))
        col.count('evaluations', len(sps))
        col.count('states', len(classes))
        col.note_nontrivial({report.digest((v, c)) for c in classes})
        col.cov.setdefault('valuations', []).append({'valuation': v, 'specs': len(sps), 'classes': len(classes),
                                                     'must_accept': sum(oc[0] == 'accept' for _, oc in res),
                                                     'must_refuse': sum(oc[0] == 'refuse' for _, oc in res),
                                                     'dont_care': sum(oc[0] == 'either' for _, oc in res),
                                                     'skipped': sum(oc == ('skip',) for _, oc in res)})
        col.sample({'spec': sps[len(sps) // 3]})
        col.sample({'spec': sps[11]})


def replay(case):
    pp = env.load()
    STOCKS.update(STOCKS_THOROUGH)
    _G.update(pp=pp, vidx=case['vidx'])
    return run_spec(case['spec'])[0]
