"""C11 — dilute and fill_to reach their target by adding only solvent (E5 specifications + E1-reached containers)."""
import itertools
from fractions import Fraction as F

from .. import alphabets, e1, env, par, ref, report
from ..report import V
from . import C01, C05

PID = 'C11'

MIXTURES = {
    'binary': [('water', '10 mL'), ('nacl', '5 mmol')],
    'solvent-absent': [('dmso', '8 mL'), ('nacl', '5 mmol')],
    'ternary-liquid': [('water', '6 mL'), ('dmso', '4 mL'), ('nacl', '5 mmol')],
    'ternary-solid': [('water', '10 mL'), ('nacl', '5 mmol'), ('na2so4', '2 mmol')],
    'enzyme-bystander': [('water', '10 mL'), ('nacl', '5 mmol'), ('lipase', '3 U')],
    'liquid-solute': [('water', '10 mL'), ('dmso', '2 mL')],
    'solids-only': [('nacl', '5 mmol'), ('na2so4', '2 mmol')],
    # sub-microlitre magnitudes: everything must hold relative to the data, not to the base unit
    'tiny-binary': [('water', '123.456 nL'), ('nacl', '12.3 nmol')],
    'tiny-dry': [('nacl', '12.3 nmol')],
    # a trace solute: concentrations that are tiny in base units (250 nM)
    'trace-binary': [('water', '10 mL'), ('nacl', '2.5 nmol')],
    # parts that measure EXACTLY the same in one unit (equimolar solutes; equal volumes of two liquids): what a vessel holds is a
    # sum over its parts, not over the distinct values among them
    'equimolar': [('water', '10 mL'), ('nacl', '2 mmol'), ('na2so4', '2 mmol')],
    'equal-volumes': [('water', '5 mL'), ('dmso', '5 mL'), ('nacl', '3 mmol')],
}
DIL_UNITS = ['M', 'mM', 'm', 'mol/L', 'mmol/mL', 'g/L', 'g/mL', 'g/g', 'g/kg', 'mol/mol', 'L/L', 'mL/L', '%w/w', '%v/v', '%w/v',
             'mg/10 mL', 'umol/10 uL']
FACTORS = [F(1, 10), F(1, 2), F(9, 10), F(1), F(11, 10), F(2)]
CAPS = ['inf', 'ample', 'just-enough', 'just-short', 'exact']
FILL_UNITS = ['L', 'mL', 'uL', 'nL', 'dL', 'g', 'mg', 'ug', 'kg', 'mol', 'mmol', 'umol', 'nmol']
FILL_FACTORS = [F(1, 2), F(1), F(3, 2), F(3)]


THOROUGH = {'on': False}
PARTS = [('water', '7 mL'), ('dmso', '3 mL'), ('nacl', '4 mmol'), ('na2so4', '1.5 mmol'), ('lipase', '2 U'), ('tea', '1.2 mL')]


def more_mixtures():
    """Thorough tier: every non-empty subset of six substances (63 mixtures)."""
    out = {}
    for r in range(1, len(PARTS) + 1):
        for combo in itertools.combinations(range(len(PARTS)), r):
            out['subset-' + ''.join(str(i) for i in combo)] = [PARTS[i] for i in combo]
    return out


def dilute_specs():
    th = THOROUGH['on']
    for mix in MIXTURES:
        names = [n for n, _ in MIXTURES[mix]]
        for solute in (('nacl', 'dmso', 'na2so4', 'tea', 'water') if th else ('nacl', 'dmso')):
            if solute not in names:
                continue
            for solvent in (('water', 'tea', 'dmso', 'na2so4') if th else ('water', 'tea', 'na2so4')):
                if solvent == solute:
                    continue
                for cu, f, cap in itertools.product(DIL_UNITS, FACTORS + ([F(1, 100), F(99, 100), F(5)] if th else []), CAPS):
                    if cap != 'inf' and not th and cu not in ('M', 'g/g', 'mol/mol', 'L/L'):
                        continue
                    yield {'op': 'dilute', 'mix': mix, 'solute': solute, 'solvent': solvent, 'cu': cu, 'f': [f.numerator, f.denominator],
                           'cap': cap}


def self_specs():
    """A 'solvent' that IS the solute, handed over as an equal but distinct object (a second Substance built the same way, or
    the key of a container that went through a transfer): adding the solute cannot lower its concentration."""
    for mix in MIXTURES:
        names = [n for n, _ in MIXTURES[mix]]
        for solute in ('nacl', 'dmso', 'water'):
            if solute in names and len(names) > 1:
                for cu, f in itertools.product(('M', 'g/g', 'mol/mol', 'L/L', '%w/v'), (F(1, 2), F(9, 10), F(2))):
                    yield {'op': 'dilute', 'mix': mix, 'solute': solute, 'solvent': '=copy', 'cu': cu, 'f': [f.numerator, f.denominator],
                           'cap': 'inf'}


def fill_specs():
    for mix in MIXTURES:
        for solvent in ('water', 'tea', 'lipase'):
            for u, f, cap in itertools.product(FILL_UNITS, FILL_FACTORS + ([F(1001, 1000), F(20)] if THOROUGH['on'] else []), CAPS):
                if cap != 'inf' and not THOROUGH['on'] and u not in ('mL', 'g', 'mmol'):
                    continue
                yield {'op': 'fill_to', 'mix': mix, 'solvent': solvent, 'u': u, 'f': [f.numerator, f.denominator], 'cap': cap}


_G = {}


def cap_string(pp, needed_L, cap):
    """Capacity relative to the volume the result needs."""
    if cap == 'inf':
        return 'inf L'
    k = {'ample': F(10), 'just-enough': F(1001, 1000), 'just-short': F(999, 1000), 'exact': F(1)}[cap]
    return f"{float(needed_L * k * 1000):.12g} mL"


def only_solvent_increased(before, after, solvent):
    for s in set(before) | set(after):
        a, b = before.get(s, 0.0), after.get(s, 0.0)
        if s == solvent:
            if b < a - 1e-9:
                return f"{s.name} decreased from {a!r} to {b!r}"
        elif abs(a - b) > 1e-9 + 1e-12 * abs(a):
            return f"{s.name} changed from {a!r} to {b!r}"
    return None


def run_spec(sp):
    vs, cls = run_spec_direct(sp)
    if vs or cls[0].startswith('skip') or cls[0] == 'self' or sp['cap'] not in ('inf', 'just-short'):
        return vs, cls
    return via_recipe(sp, cls)


def via_recipe(sp, cls):
    """The same request as a recipe step (uses, dilute / fill_to, bake): same outcome, same container."""
    pp = _G['pp']
    c, call_args, direct = _G['last']
    env.clear_caches(pp)
    fp = e1.exact_obj(c)
    case = {'vidx': _G['vidx'], 'spec': sp}
    what = f"recipe.{sp['op']}(Container({sp['mix']}, cap={sp['cap']}), {', '.join(getattr(a, 'name', repr(a)) for a in call_args)})"
    phase = 'add'
    try:
        r = pp.Recipe()
        r.uses(c)
        getattr(r, sp['op'])(c, *call_args)
        phase = 'bake'
        got = r.bake()['C']
        outcome = 'returned'
    except ValueError as e:
        got, outcome = e, 'ValueError'
    except Exception as e:  # noqa
        got, outcome = e, type(e).__name__
    feat = f"{sp['op']},via=recipe"
    if e1.exact_obj(c) != fp:
        return [V(f"Recipe.{sp['op']} | argument-mutated | {feat}", f"{what} modified the declared container", case)], cls
    want = 'returned' if direct is not None else 'ValueError'
    if cls[0] == 'either' and outcome in ('returned', 'ValueError'):
        # on a feasibility boundary (target equal to the current value, brim-full vessels) the recipe's acceptance pre-check
        # and the direct call may fall on different sides; a refusal must still be a ValueError
        if outcome == 'ValueError' or direct is None:
            return [], cls + ('recipe-' + outcome,)
    elif outcome != want:
        return [V(f"Recipe.{sp['op']} | outcome-differs-from-direct | {feat},direct={want},recipe={outcome},at={phase}",
                  f"{what}: the direct call {'returns' if direct is not None else 'raises ValueError'}, the recipe "
                  f"{'returns' if outcome == 'returned' else f'raises {outcome} ({got}) when the step is ' + ('added' if phase == 'add' else 'baked')}",
                  case, want, outcome)], cls
    from .. import e2
    d = e2.same_object(pp, got, direct) if direct is not None else None
    if d:
        return [V(f"Recipe.{sp['op']} | result-differs-from-direct | {feat}",
                  f"{what}: baked {e1.contents_key(got, 9)}, direct {e1.contents_key(direct, 9)}: {d}", case)], cls
    return [], cls + ('recipe-' + outcome,)


def self_dilution(pp, vidx, sp, subs, contents, probe, f):
    import copy
    solute = subs[sp['solute']]
    twin = copy.deepcopy(solute)
    mult, num, den = ref.parse_concentration('1 ' + sp['cu'])
    cur = ref.conc(pp, probe.contents, solute, num, den)
    if not cur:
        return [], ('skip',)
    cstr = C05.conc_str(cur * f, sp['cu'])
    target, _, _ = ref.parse_concentration(cstr)
    if float(target) < 1e3 * 10.0 ** -pp.config.internal_precision:
        return [], ('skip',)
    case = {'vidx': vidx, 'spec': sp}
    c = pp.Container('C', 'inf L', contents)
    call = f"Container({sp['mix']}).dilute({sp['solute']}, {cstr!r}, <an equal copy of {sp['solute']}>)"
    feat = f"dilute,mix={sp['mix']},solvent-is-solute"
    env.clear_caches(pp)
    _G['last'] = (c, (solute, cstr, twin), None)
    try:
        r = c.dilute(solute, cstr, twin)
    except ValueError:
        return [], ('self', 'ValueError')
    except Exception as e:  # noqa
        return [V(f"Container.dilute | wrong-exception | {feat}", f"{call} raised {type(e).__name__}: {e}", case)], \
            ('self', type(e).__name__)
    if f > 1:
        return [V(f"Container.dilute | accepted-infeasible | {feat},above-current=1",
                  f"{call} must be refused (target above the current concentration) but returned", case)], ('self', 'returned')
    got = ref.conc(pp, r.contents, solute, num, den)
    rel = 1e-6 + 10.0 ** -pp.config.internal_precision / float(target)
    if got is None or abs(float(got) - float(target)) > rel * float(target):
        return [V(f"Container.dilute | constraint-missed | {feat}",
                  f"{call}: resulting concentration {float(got / mult) if got is not None else None!r} {sp['cu']}, requested "
                  f"{float(target / mult)!r} (was {float(cur / mult)!r})", case)], ('self', 'returned')
    return [], ('self', 'returned')


def run_spec_direct(sp):
    pp, vidx = _G['pp'], _G['vidx']
    subs = e1.substances(pp, vidx)
    contents = [(subs[n], q) for n, q in MIXTURES[sp['mix']]]
    probe = pp.Container('C', 'inf L', contents)
    f = F(*sp['f'])
    if sp['solvent'] == '=copy':
        return self_dilution(pp, vidx, sp, subs, contents, probe, f)
    solvent = subs[sp['solvent']]
    rsv = ref.rsub(solvent)
    V0 = ref.measure(pp, probe.contents, 'L')
    case = {'vidx': vidx, 'spec': sp}
    if sp['op'] == 'dilute':
        solute = subs[sp['solute']]
        mult, num, den = ref.parse_concentration('1 ' + sp['cu'])
        cur = ref.conc(pp, probe.contents, solute, num, den)
        if not cur:
            return [], ('skip',)
        cstr = C05.conc_str(cur * f, sp['cu'])
        target, _, _ = ref.parse_concentration(cstr)
        N = ref.measure(pp, {solute: probe.contents[solute]}, num)
        D0 = ref.measure(pp, probe.contents, den)
        d = ref.per_base(rsv, den)
        if d == 0:
            return [], ('skip',)
        x = (N / target - D0) / d                 # mol of solvent to add
        needed = V0 + max(x, 0) * ref.per_base(rsv, 'L')
        if f >= 1 and sp['cap'] != 'inf':
            return [], ('skip',)
        try:
            if sp['cap'] == 'exact':
                # a vessel whose capacity is exactly the volume that the implementation itself reports for the diluted
                # solution. Filling a vessel to the brim is allowed, but whether it is accepted is DON'T-CARE: the tree's
                # pre-check and its result volume are two different float sums and disagree in the last digit for some
                # inputs (42 classes of the thorough grid). What is judged is the result when the call is accepted.
                c = pp.Container('C', f"{probe.dilute(solute, cstr, solvent).volume!r} {pp.config.volume_storage_unit}", contents)
            else:
                c = pp.Container('C', cap_string(pp, needed if f < 1 else V0, sp['cap']), contents)
        except ValueError:
            return [], ('skip',)          # the capacity class does not even hold the mixture (x <= 0: nothing to add)
        if f > 1:
            expect = 'refuse'
        elif f == 1:
            expect = 'either'
        else:
            expect = 'refuse' if sp['cap'] == 'just-short' else 'either' if sp['cap'] == 'exact' else 'accept'
        if float(target) < 1e3 * 10.0 ** -pp.config.internal_precision:
            # the parsed target is rounded to 10^-precision in base units: below a thousand resolutions (e.g. 2.5e-11 mol/g for
            # 25 nmol/kg) the request itself is only defined to > 0.1 %, and may even round to zero
            expect = 'either'
        call = f"Container({sp['mix']}, cap={sp['cap']}).dilute({sp['solute']}, {cstr!r}, {sp['solvent']})"
        feat = f"dilute,mix={sp['mix']},solvent-present={int(solvent in probe.contents)}"
        env.clear_caches(pp)
        fp = e1.exact_obj(c)
        _G['last'] = (c, (solute, cstr, solvent), None)
        try:
            r = c.dilute(solute, cstr, solvent)
            _G['last'] = (c, (solute, cstr, solvent), r)
        except ValueError as e:
            if expect == 'accept':
                return [V(f"Container.dilute | refused-feasible | {feat}", f"{call} is reachable but raised ValueError: {e}",
                          case, 'returns', f"ValueError: {e}")], (expect, 'ValueError')
            return [], (expect, 'ValueError')
        except Exception as e:  # noqa
            return [V(f"Container.dilute | wrong-exception | {feat}", f"{call} raised {type(e).__name__}: {e}", case)], \
                (expect, type(e).__name__)
        if expect == 'refuse':
            return [V(f"Container.dilute | accepted-infeasible | {feat},above-current={int(f > 1)}",
                      f"{call} must be refused ({'target above the current concentration' if f > 1 else 'does not fit'}) "
                      f"but returned", case)], (expect, 'returned')
        if e1.exact_obj(c) != fp:
            return [V(f"Container.dilute | argument-mutated | {feat}", f"{call} modified its argument", case)], (expect, 'returned')
        why = only_solvent_increased(c.contents, r.contents, solvent)
        if why:
            return [V(f"Container.dilute | extra-change | {feat}", f"{call}: {why}", case)], (expect, 'returned')
        got = ref.conc(pp, r.contents, solute, num, den)
        rel = 1e-6 + 10.0 ** -pp.config.internal_precision / float(target)
        if abs(float(got) - float(target)) > rel * float(target):
            return [V(f"Container.dilute | constraint-missed | {feat}",
                      f"{call}: resulting concentration {float(got / mult)!r} {sp['cu']}, requested {float(target / mult)!r} "
                      f"(was {float(cur / mult)!r})", case, float(target / mult), float(got / mult))], (expect, 'returned')
        if r.volume > r.max_volume * (1 + 1e-12) + 1e-9:
            return [V(f"Container.dilute | over-capacity | {feat}", f"{call}: volume {r.volume} > {r.max_volume}", case)], \
                (expect, 'returned')
        # the optional name: the same dilution under a new name, the container it is called on stays what it was, and the
        # container can be diluted again afterwards exactly as before
        try:
            named = c.dilute(solute, cstr, solvent, 'D2')
            again = c.dilute(solute, cstr, solvent)
        except Exception as e:  # noqa
            return [V(f"Container.dilute | named-variant | {feat},raises={type(e).__name__}",
                      f"{call}: after / with name='D2' the same dilution raises {type(e).__name__}: {e}", case)], (expect, 'returned')
        if e1.exact_obj(c) != fp:
            return [V(f"Container.dilute | argument-mutated | {feat},named", f"{call} with name='D2' modified its argument", case)], \
                (expect, 'returned')
        # ... and the diluted container is a container like any other: diluted again (to half the target), directly and after a
        # part of it was transferred away, it reaches the new target, judged by the same definition
        if f < 1 and expect == 'accept' and sp['cap'] == 'inf':
            cstr2 = C05.conc_str(target / 2, sp['cu'])
            target2, _, _ = ref.parse_concentration(cstr2)
            if float(target2) >= 1e3 * 10.0 ** -pp.config.internal_precision:
                part, _ = pp.Container.transfer(r, pp.Container('sink', 'inf L'), f"{r.volume / 3!r} {pp.config.volume_storage_unit}")
                for label, start in (('serial', r), ('serial-after-transfer', part)):
                    try:
                        r2 = start.dilute(solute, cstr2, solvent)
                    except Exception as e:  # noqa
                        return [V(f"Container.dilute | {label} | {feat},raises={type(e).__name__}",
                                  f"{call}, then .dilute({sp['solute']}, {cstr2!r}, {sp['solvent']}) ({label}) raised "
                                  f"{type(e).__name__}: {e}", case)], (expect, 'returned')
                    got2 = ref.conc(pp, r2.contents, solute, num, den)
                    rel2 = 1e-6 + 10.0 ** -pp.config.internal_precision / float(target2)
                    why2 = only_solvent_increased(start.contents, r2.contents, solvent)
                    if why2 or got2 is None or abs(float(got2) - float(target2)) > rel2 * float(target2):
                        return [V(f"Container.dilute | {label} | {feat}",
                                  f"{call}, then .dilute({sp['solute']}, {cstr2!r}, {sp['solvent']}) ({label}): concentration "
                                  f"{float(got2 / mult) if got2 is not None else None!r} {sp['cu']}, requested "
                                  f"{float(target2 / mult)!r}{'; ' + why2 if why2 else ''}", case)], (expect, 'returned')
        if named.name != 'D2' or r.name != c.name or named.contents != r.contents or named.volume != r.volume or \
                named.max_volume != r.max_volume or again.contents != r.contents:
            return [V(f"Container.dilute | named-variant | {feat}",
                      f"{call}: with name='D2' the result is {named.name!r} {e1.contents_key(named, 9)}, without it "
                      f"{r.name!r} {e1.contents_key(r, 9)}; a second un-named call gives {e1.contents_key(again, 9)}", case)], \
                (expect, 'returned')
        return [], (expect, 'returned')
    # ---- fill_to ----------------------------------------------------------------------------------------------------
    pf, base = ref.split_unit(sp['u'])
    cur = ref.measure(pp, probe.contents, base)
    nothing_measured = cur == 0        # e.g. moles of an enzyme-only mixture: any positive target is above the current one
    if nothing_measured:
        cur = F(1, 1000)
    qstr = C05.fmt(cur * f / pf, sp['u'])
    target, _ = ref.parse_quantity(qstr)
    per = ref.per_base(rsv, base)
    if per == 0:
        # the filler cannot be measured in the unit of the target (moles of an enzyme; a volume of a substance without volume):
        # no amount of it reaches a target above the current quantity - the request must be refused, not silently left unmet
        if f <= 1 or sp['cap'] != 'inf' or nothing_measured:
            return [], ('skip',)
        c = pp.Container('C', 'inf L', contents)
        call = f"Container({sp['mix']}).fill_to({sp['solvent']}, {qstr!r})"
        try:
            r = c.fill_to(solvent, qstr)
        except ValueError:
            return [], ('skip-refused-unmeasurable-filler',)
        except Exception as e:  # noqa
            return [V(f"Container.fill_to | wrong-exception | filler-cannot-be-measured,unit={base}",
                      f"{call} raised {type(e).__name__}: {e}", case)], ('refuse', type(e).__name__)
        got = ref.measure(pp, r.contents, base)
        return [V(f"Container.fill_to | accepted-infeasible | filler-cannot-be-measured,unit={base},solvent-kind={rsv.kind}",
                  f"{call} returned a container holding {float(got / pf)!r} {sp['u']}: no amount of {sp['solvent']} can be "
                  f"measured in {base}, the target {float(target / pf)!r} {sp['u']} cannot be reached and the request must be refused",
                  case, 'ValueError', 'returned')], ('refuse', 'returned')
    x = (target - ref.measure(pp, probe.contents, base)) / per
    needed = V0 + max(x, 0) * ref.per_base(rsv, 'L')
    if f <= 1 and sp['cap'] != 'inf':
        return [], ('skip',)
    try:
        if sp['cap'] == 'exact':
            c = pp.Container('C', f"{probe.fill_to(solvent, qstr).volume!r} {pp.config.volume_storage_unit}", contents)
        else:
            c = pp.Container('C', cap_string(pp, needed if f > 1 else V0, sp['cap']), contents)
    except ValueError:
        return [], ('skip',)
    if nothing_measured:
        expect = 'accept' if sp['cap'] in ('inf', 'ample') else 'either'
    elif f < 1:
        expect = 'refuse'
    elif f == 1:
        expect = 'either'
    else:
        expect = 'refuse' if sp['cap'] == 'just-short' else 'either' if sp['cap'] == 'exact' else 'accept'
    call = f"Container({sp['mix']}, cap={sp['cap']}).fill_to({sp['solvent']}, {qstr!r})"
    feat = f"fill_to,unit={base},enzyme-present={int(any(s.is_enzyme() for s in probe.contents))},solvent-kind={rsv.kind}"
    env.clear_caches(pp)
    fp = e1.exact_obj(c)
    _G['last'] = (c, (solvent, qstr), None)
    try:
        r = c.fill_to(solvent, qstr)
        _G['last'] = (c, (solvent, qstr), r)
    except ValueError as e:
        if expect == 'accept':
            return [V(f"Container.fill_to | refused-feasible | {feat}", f"{call} fits but raised ValueError: {e}", case,
                      'returns', f"ValueError: {e}")], (expect, 'ValueError')
        return [], (expect, 'ValueError')
    except Exception as e:  # noqa
        return [V(f"Container.fill_to | wrong-exception | {feat}", f"{call} raised {type(e).__name__}: {e}", case)], \
            (expect, type(e).__name__)
    if expect == 'refuse':
        return [V(f"Container.fill_to | accepted-infeasible | {feat},below-current={int(f < 1)}",
                  f"{call} must be refused but returned", case)], (expect, 'returned')
    if e1.exact_obj(c) != fp:
        return [V(f"Container.fill_to | argument-mutated | {feat}", f"{call} modified its argument", case)], (expect, 'returned')
    why = only_solvent_increased(c.contents, r.contents, solvent)
    if why:
        return [V(f"Container.fill_to | extra-change | {feat}", f"{call}: {why}", case)], (expect, 'returned')
    got = ref.measure(pp, r.contents, base)
    # the filler is stored with the documented resolution (10^-precision of its storage unit): in the unit of the target that is
    quantum = float(ref.base_amount(pp, rsv, 10.0 ** -pp.config.internal_precision) * ref.per_base(rsv, base))
    if abs(float(got) - float(target)) > 1e-6 * float(target) + 2 * quantum:
        return [V(f"Container.fill_to | constraint-missed | {feat}",
                  f"{call}: resulting total {float(got / pf)!r} {sp['u']}, requested {float(target / pf)!r}", case,
                  float(target / pf), float(got / pf))], (expect, 'returned')
    if r.volume > r.max_volume * (1 + 1e-12) + 1e-9:
        return [V(f"Container.fill_to | over-capacity | {feat}", f"{call}: volume {r.volume} > {r.max_volume}", case)], \
            (expect, 'returned')
    return [], (expect, 'returned')


def run(col):
    pp = env.load()
    col.rule = ("every request with an unlimited or a just-too-small vessel is also made as a recipe step (uses, dilute / "
                "fill_to, bake): same outcome, same container as the direct call. " +
                "9 mixture classes (binary, solvent absent, ternary with a second liquid / second solid, equimolar / equal-volume parts, enzyme bystander, liquid "
                "solute, solids only) x solute x solvent (present / other) x 17 concentration spellings x target factors "
                "{0.1, 0.5, 0.9, 1, 1.1, 2} x current x capacity {inf, ample, just enough, just short}; fill_to: 10 unit "
                "spellings x {0.5, 1, 1.5, 3} x current x capacities x solvent {water, other liquid, enzyme by mass}. Targets are "
                "derived from the current value by the exact-rational model; the result is checked by definition. "
                "Non-trivial = distinct (operation, mixture class, unit base, flags, expectation, outcome) classes")
    col.assumptions += ["factor 1 (target equals the current value) is don't-care between refusing and returning an equal container"]
    vals = [col.seed % 3] if col.tier == 'quick' else [0, 1, 2]
    THOROUGH['on'] = col.tier == 'thorough'
    if THOROUGH['on']:
        MIXTURES.update(more_mixtures())
    for v in vals:
        _G.update(pp=pp, vidx=v)
        sps = list(dilute_specs()) + list(fill_specs()) + list(self_specs())
        res = par.pmap(run_spec, sps)
        classes = set()
        for sp, (vs, oc) in zip(sps, res):
            col.add(vs)
            classes.add((sp['op'], sp['mix'], sp.get('cu') or ref.split_unit(sp['u'])[1], sp['cap'], sp['solvent'], oc))
        n_recipe = sum(1 for _, oc in res if any(isinstance(x, str) and x.startswith('recipe-') for x in oc))
        col.count('transitions', len(sps) + n_recipe)
        col.count('traces', len(sps) + n_recipe)
        col.count('evaluations', len(sps) + n_recipe)
        col.count('recipe_variants', n_recipe)
        col.count('states', len(classes))
        col.note_nontrivial({report.digest((v, c)) for c in classes})
        col.cov.setdefault('valuations', []).append({'valuation': v, 'specs': len(sps), 'classes': len(classes),
                                                     'skipped': sum(oc == ('skip',) for _, oc in res)})
        col.sample({'spec': sps[len(sps) // 3]})
        col.sample({'spec': sps[-5]})


def replay(case):
    pp = env.load()
    MIXTURES.update(more_mixtures())
    _G.update(pp=pp, vidx=case['vidx'])
    return run_spec(case['spec'])[0]
