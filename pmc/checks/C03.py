"""C03 — impossible states are never produced; infeasible requests are refused with ValueError, feasible ones accepted."""
from .. import alphabets, e1, env, monitors, par, report
from ..report import V
from . import C01

PID = 'C03'
MONS = [monitors.m_sanity, monitors.m_feasible, monitors.m_infeasible]
T = alphabets.T


def full_alphabet():
    """History alphabet + every other operation + requests beyond the feasibility boundaries (deviations)."""
    a = alphabets.history_alphabet()
    a += [
        T('A', 'E', '3 mL'), T('B', 'E', '100 g'), T('A', 'B', '1 mol'), T('A', 'E', '1000 U'),      # over-draw / overflow
        T('A', 'B', '-1 mL'), T('A', 'B', '-0.1 g'), T('B', 'A', '-1 mmol'), T('A', 'B', '-1 U'),   # negative
        T('E', 'B', '1 mL'), T('E', 'B', '1 g'), T('E', 'A', '1 mmol'), T('G', 'A', '1 U'),         # empty source / no enzyme
        T('A', 'P', '300 uL'), T('B', ['P', "(2, slice(None))"], '450 uL'),                          # overflow at a later well
        T('P', 'E', '150 uL'),
        {'op': 'fill_to', 'obj': 'P', 'solvent': 'water', 'q': '500 uL'},          # every well of P to the brim
        {'op': 'add', 'obj': 'E', 'what': 'tea', 'q': '1.5 mL'}, {'op': 'add', 'obj': 'B', 'what': 'water', 'q': '16 mL'},
        # solids and an enzyme measured by VOLUME (a legitimate request: they have a density)
        {'op': 'add', 'obj': 'E', 'what': 'nacl', 'q': '0.2 mL'}, {'op': 'fill_to', 'obj': 'E', 'solvent': 'na2so4', 'q': '0.5 mL'},
        {'op': 'new_container', 'name': 'X', 'max': '5 mL', 'contents': [['nacl', '0.3 mL'], ['lipase', '10 uL']]},
        {'op': 'fill_to', 'obj': 'B', 'solvent': 'dmso', 'q': '4 mL'},           # below the current quantity
        {'op': 'fill_to', 'obj': 'B', 'solvent': 'dmso', 'q': '25 mL'},          # beyond the capacity
        {'op': 'fill_to', 'obj': 'A', 'solvent': 'water', 'q': '30 g'},
        {'op': 'dilute', 'obj': 'B', 'solute': 'nacl', 'conc': '1 M', 'solvent': 'dmso'},      # above the current conc.
        {'op': 'dilute', 'obj': 'B', 'solute': 'nacl', 'conc': '0.01 M', 'solvent': 'dmso'},   # beyond the capacity
        {'op': 'dilute', 'obj': 'A', 'solute': 'nacl', 'conc': '0.05 M', 'solvent': 'water'},
        {'op': 'dilute', 'obj': 'A', 'solute': 'nacl', 'conc': '0.08 M', 'solvent': 'water', 'new_name': 'A2'},
        {'op': 'observe', 'obj': 'P'}, {'op': 'observe', 'obj': ['P', "(slice(None), slice(2, 3))"]}, {'op': 'observe', 'obj': 'A'},
        {'op': 'observe', 'obj': ['Q', "1"]},
        {'op': 'create_solution', 'solute': 'nacl', 'solvent': 'water', 'name': 'S',
         'kw': {'concentration': '0.5 M', 'total_quantity': '2 mL'}},
        {'op': 'create_solution', 'solute': 'nacl', 'solvent': 'A', 'name': 'S',
         'kw': {'quantity': '10 mg', 'total_quantity': '2 mL'}},
        {'op': 'create_solution', 'solute': 'nacl', 'solvent': 'water', 'name': 'S',
         'kw': {'concentration': '100 M', 'total_quantity': '2 mL'}},             # unreachable
        {'op': 'create_solution', 'solute': ['nacl', 'na2so4'], 'solvent': 'water', 'name': 'S',
         'kw': {'concentration': ['0.2 M', '0.1 M'], 'total_quantity': '3 mL'}},
        {'op': 'create_solution', 'solute': ['nacl', 'na2so4'], 'solvent': 'water', 'name': 'S',
         'kw': {'concentration': ['100 M', '0.1 M'], 'total_quantity': '3 mL'}},    # unreachable, list form
        {'op': 'create_solution', 'solute': ['nacl', 'na2so4'], 'solvent': 'B', 'name': 'S',
         'kw': {'quantity': ['5 mg', '2 mg'], 'total_quantity': '30 mL'}},          # the solvent container runs short
        {'op': 'create_solution_from', 'src': 'B', 'solute': 'nacl', 'conc': '0.05 M', 'solvent': 'dmso', 'q': '2 mL',
         'name': 'F'},
        {'op': 'create_solution_from', 'src': 'B', 'solute': 'nacl', 'conc': '5 M', 'solvent': 'dmso', 'q': '2 mL',
         'name': 'F'},                                                            # above the stock's concentration
        {'op': 'create_solution_from', 'src': 'B', 'solute': 'nacl', 'conc': '0.19 M', 'solvent': 'dmso', 'q': '50 mL',
         'name': 'F'},                                                            # more than the stock can give
    ]
    return a


W_CAP = {'M': ('container', '10 mL', [('water', '5 mL'), ('lipase', '4 U')]),
         'N': ('container', '10 mL', [('water', '5 mL'), ('nacl', '5 mmol'), ('lipase', '2 U')]),
         'S': ('container', 'inf L', [('water', '40 mL')])}


def capacity_alphabet():
    """Operations around the capacity of vessels that hold an enzyme (whose volume the cached attribute may lose)."""
    a = []
    for o in ('M', 'N'):
        for what in ('LIQUID', 'water', 'ENZYME', 'SOLID'):
            a.append({'op': 'remove', 'obj': o, 'what': what})
        for q in ('7 mL', '10 mL', '12 mL', '9.5 g'):
            a.append({'op': 'fill_to', 'obj': o, 'solvent': 'water', 'q': q})
        for q in ('1 mL', '4 mL', '7 mL'):
            a.append({'op': 'add', 'obj': o, 'what': 'water', 'q': q})
            a.append(T('S', o, q))
    a += [{'op': 'dilute', 'obj': 'N', 'solute': 'nacl', 'conc': c, 'solvent': 'water'} for c in ('0.6 M', '0.52 M', '0.4 M')]
    a += [T('M', 'N', '2 mL'), T('N', 'M', '3 mL'), T('M', 'S', '1 U')]
    return a


# ---- boundary enumeration (refusal oracle) ----------------------------------------------------------------------
def _num(x):
    return f"{x:.10g}"


def boundary_cases(vidx=0):
    """List of (feature, world spec, pre-history, action, expectation, via_recipe). expectation: accept|refuse|either."""
    cases = []
    EMPTY = {}

    def add(feature, spec, pre, act, expect):
        cases.append({'feature': feature, 'spec': spec, 'pre': pre, 'act': act, 'expect': expect, 'recipe': False})
        if act['op'] in ('transfer', 'fill_to', 'dilute', 'create_solution', 'new_container') or \
                (act['op'] == 'create_solution_from' and act['solvent'] not in spec):
            cases.append({'feature': feature, 'spec': spec, 'pre': pre, 'act': act, 'expect': expect, 'recipe': True})

    # 1. constructor filled exactly to capacity, every integer 1..200 mL and every tenth 0.1..5.0 mL, three spellings
    vols = [(i, 1) for i in range(1, 201)] + [(i, 10) for i in range(1, 51)]
    for n, d in vols:
        ml = n / d
        spell = [f"{_num(ml)} mL", f"{_num(ml / 1000)} L", f"{_num(ml * 1000)} uL"]
        for i, cap in enumerate(spell):
            content = spell[(i + (n % 3)) % 3]
            add('ctor,at-capacity', EMPTY, [], {'op': 'new_container', 'name': 'N', 'max': cap,
                                                  'contents': [['water', content]]}, 'accept')
        add('ctor,above-capacity', EMPTY, [], {'op': 'new_container', 'name': 'N', 'max': spell[0],
                                                 'contents': [['water', f"{_num(ml * 1.001)} mL"]]}, 'refuse')
        add('ctor,below-capacity', EMPTY, [], {'op': 'new_container', 'name': 'N', 'max': spell[0],
                                                 'contents': [['water', f"{_num(ml * 0.999)} mL"]]}, 'accept')
        if n % 7 == 0 and d == 1:
            a, b = round(ml * 0.6, 6), round(ml - round(ml * 0.6, 6), 6)
            add('ctor,two-substances-at-capacity', EMPTY, [],
                {'op': 'new_container', 'name': 'N', 'max': spell[0],
                 'contents': [['water', f"{_num(a)} mL"], ['dmso', f"{_num(b)} mL"]]}, 'accept')
    # 1b. decimal capacities whose conversion to the storage unit is not exact in binary (7.7 uL, 15.4 uL, 32.3 mL ...): every
    # tenth of a microlitre up to 50 uL and every tenth of a millilitre from 5.1 to 50 mL, the vessel filled with exactly what its
    # capacity says - at construction (same and another spelling), by fill_to and by a transfer
    FILLER = {'S': ('container', 'inf L', [('water', '200 mL')])}
    for i in range(1, 501):
        for unit, alt, k in (('uL', 'mL', 1000), ('mL', 'L', 1000)):
            if unit == 'mL' and i <= 50:
                continue
            x = i / 10
            cap = f"{_num(x)} {unit}"
            other = f"{_num(x / k)} {alt}"
            add('ctor,at-capacity,decimal', EMPTY, [], {'op': 'new_container', 'name': 'N', 'max': cap,
                                                          'contents': [['water', cap]]}, 'accept')
            if i % 3 == 0:
                add('ctor,at-capacity,decimal', EMPTY, [], {'op': 'new_container', 'name': 'N', 'max': cap,
                                                              'contents': [['water', other]]}, 'accept')
            if i % 5 == 2:
                spec = dict(FILLER, N=('container', cap, []))
                add('fill_to,at-capacity,decimal', spec, [], {'op': 'fill_to', 'obj': 'N', 'solvent': 'water', 'q': cap}, 'accept')
                add('transfer,at-capacity,decimal', spec, [], T('S', 'N', cap), 'accept')
    # 2. transfer: over-draw in every unit, whole content, negative, zero, empty source
    W = {'S': ('container', 'inf L', [('water', '4 mL'), ('dmso', '1 mL'), ('nacl', '1 mmol'), ('lipase', '3 U')]),
         'D': ('container', 'inf L', [('tea', '1 mL')]),
         'Z': ('container', '10 mL', []),
         'K': ('container', 'inf L', [('nacl', '100 mg'), ('na2so4', '50 mg')]),
         'R': ('plate', '20 mL', 2, 2)}
    # totals of S are computed by the reference model inside the worker ('@whole' marks), here symbolic fractions
    for unit in ('L', 'g', 'mol', 'U'):
        for frac, expect, tag in ((0.999, 'accept', 'below'), (1.0, 'either', 'at'), (1.001, 'refuse', 'above'),
                                  (3.0, 'refuse', 'far-above'), (-0.5, 'refuse', 'negative'), (0.0, 'accept', 'zero')):
            for dst in ('D', 'Z', ['R', "(1, 1)"], ['R', "(1, slice(None))"]):
                f = frac if isinstance(dst, str) or len(str(dst[1])) < 8 or frac <= 0 else frac / 2
                add(f"transfer,{tag},unit={unit}", W, [], {'op': 'transfer', 'src': 'S', 'dst': dst,
                                                            'q': f"@{f}@{unit}"}, expect if f == frac or frac <= 0 else expect)
        # empty source
        for q, expect, tag in ((f"1 m{unit}" if unit != 'U' else '1 U', 'refuse', 'positive'),
                               (f"0 {unit}", 'either', 'zero')):
            add(f"transfer,empty-source,{tag},unit={unit}", W, [], {'op': 'transfer', 'src': 'Z', 'dst': 'D', 'q': q}, expect)
    # source without the measured kind: solids-only container by volume/moles/activity
    add('transfer,no-enzyme,unit=U', W, [], T('K', 'D', '1 U'), 'refuse')
    add('transfer,solids-only,unit=g', W, [], T('K', 'D', '50 mg'), 'accept')
    add('transfer,solids-only,unit=mol', W, [], T('K', 'D', '1 mmol'), 'accept')
    # exactly the whole content, decimal-exact
    add('transfer,whole-exact,unit=L', W, [], T('D', 'Z', '1 mL'), 'accept')
    add('transfer,whole-exact,unit=g', W, [], T('D', 'Z', f"{e1.VALUATIONS[vidx]['tea'][2]} g"), 'accept')
    add('transfer,whole-exact,unit=g', W, [], T('K', 'Z', '150 mg'), 'accept')
    add('transfer,whole-exact,unit=U', W, [], T('S', 'Z', '3 U'), 'accept')
    # exactly what the source reports as its volume, at magnitudes where 1e-10 of the storage unit is below double precision
    for contents in ([('water', '2 L'), ('nacl', '0.2 mol'), ('lipase', '20 U')], [('dmso', '1.5 L')],
                     [('water', '731.5 mL'), ('na2so4', '33.3 g')], [('tea', '0.3 mL'), ('nacl', '7 mg')]):
        Wb = dict(W, S=('container', 'inf L', contents))
        add('transfer,whole-as-reported,unit=L', Wb, [], T('S', 'D', '@volume'), 'accept')
        add('transfer,whole-as-reported,unit=L', Wb, [T('S', 'D', '@third')], T('S', 'D', '@volume'), 'accept')
    # 3. destination capacity: container, well, k-th well of a slice
    for q, expect, tag in (('10 mL', 'either', 'at'), ('9.99 mL', 'accept', 'below'), ('10.01 mL', 'refuse', 'above')):
        Wc = dict(W, S=('container', 'inf L', [('water', '40 mL')]))
        add(f"transfer,dest-capacity,{tag},container", Wc, [], T('S', 'Z', q), 'accept' if tag == 'at' else expect)
    for q, expect, tag in (('500 uL', 'accept', 'at'), ('499.5 uL', 'accept', 'below'), ('500.5 uL', 'refuse', 'above')):
        Wc = dict(W, S=('container', 'inf L', [('water', '40 mL')]), R=('plate', '500 uL', 2, 2))
        add(f"transfer,dest-capacity,{tag},well", Wc, [], T('S', ['R', "(2, 2)"], q), expect)
        add(f"transfer,dest-capacity,{tag},whole-plate", Wc, [], T('S', 'R', q), expect)
    Wc = dict(W, S=('container', 'inf L', [('water', '40 mL')]), R=('plate', '500 uL', 2, 2))
    pre = [T('S', ['R', "(2, 1)"], '300 uL')]
    add('transfer,dest-capacity,above,later-well-of-slice', Wc, pre, T('S', 'R', '250 uL'), 'refuse')
    add('transfer,dest-capacity,at,later-well-of-slice', Wc, pre, T('S', 'R', '200 uL'), 'accept')
    # 4. fill_to
    Wf = {'C': ('container', '10 mL', [('water', '4 mL'), ('nacl', '1 mmol')]),
          'R': ('plate', '500 uL', 2, 2), 'S': ('container', 'inf L', [('water', '40 mL')])}
    for q, expect, tag, u in (('@cur@0.75@L', 'refuse', 'below-current', 'L'), ('@cur@1.5@L', 'accept', 'above-current', 'L'),
                              ('10 mL', 'accept', 'at-capacity', 'L'), ('10.5 mL', 'refuse', 'above-capacity', 'L'),
                              ('0 mL', 'refuse', 'zero-target', 'L'), ('-1 mL', 'refuse', 'negative-target', 'L'),
                              ('@cur@0.75@g', 'refuse', 'below-current', 'g'), ('@cur@1.5@g', 'accept', 'above-current', 'g'),
                              ('@cur@0.5@mol', 'refuse', 'below-current', 'mol'),
                              ('@cur@1.5@mol', 'accept', 'above-current', 'mol'),
                              ('@cur@1.0@L', 'either', 'at-current', 'L'), ('@cur@1.0@g', 'either', 'at-current', 'g'),
                              ('5 U', 'refuse', 'activity-target', 'U')):
        add(f"fill_to,{tag},unit={u}", Wf, [], {'op': 'fill_to', 'obj': 'C', 'solvent': 'water', 'q': q}, expect)
    # a hair (a few 1e-11 of the base unit) below what the container holds, with a solvent it does not hold yet:
    # refusing or accepting are both fine, a negative amount of the solvent is not
    for u in ('L', 'g', 'mol'):
        for hair in ('3e-11', '4.9e-11', '1e-12'):
            add(f"fill_to,hair-below-current,unit={u}", Wf, [],
                {'op': 'fill_to', 'obj': 'C', 'solvent': 'tea', 'q': f'@cur-hair@{hair}@{u}'}, 'either')
    prep = [T('S', ['R', "(1, 1)"], '300 uL'), T('S', ['R', "(2, 2)"], '100 uL')]
    add('fill_to,below-current,one-well-of-plate', Wf, prep, {'op': 'fill_to', 'obj': 'R', 'solvent': 'water',
                                                               'q': '200 uL'}, 'refuse')
    add('fill_to,above-current,plate', Wf, prep, {'op': 'fill_to', 'obj': 'R', 'solvent': 'water', 'q': '400 uL'}, 'accept')
    add('fill_to,above-capacity,plate', Wf, prep, {'op': 'fill_to', 'obj': 'R', 'solvent': 'water', 'q': '600 uL'}, 'refuse')
    # 5. dilute
    Wd = {'C': ('container', '20 mL', [('water', '10 mL'), ('nacl', '5 mmol')])}
    for c, expect, tag in (('@cur@2@M', 'refuse', 'above-current'), ('@cur@0.8@M', 'accept', 'below-current'),
                           ('@capfit@0.95@M', 'accept', 'fits'), ('@capfit@1.05@M', 'refuse', 'beyond-capacity'),
                           ('0 M', 'refuse', 'zero-target'), ('-0.1 M', 'refuse', 'negative-target'),
                           ('@cur@1.0@M', 'either', 'at-current'),
                           ('@cur@2@g/g', 'refuse', 'above-current'), ('@capfit@1.05@g/g', 'refuse', 'beyond-capacity'),
                           ('@capfit@0.95@g/g', 'accept', 'fits'), ('@cur@0.9@mol/mol', 'accept', 'below-current'),
                           ('@cur@1.5@g/L', 'refuse', 'above-current')):
        add(f"dilute,{tag}", Wd, [], {'op': 'dilute', 'obj': 'C', 'solute': 'nacl', 'conc': c, 'solvent': 'water'}, expect)
    # 6. create_solution
    for kw, expect, tag in (({'concentration': '0.5 M', 'total_quantity': '10 mL'}, 'accept', 'reachable'),
                            ({'concentration': '100 M', 'total_quantity': '10 mL'}, 'refuse', 'unreachable-molarity'),
                            ({'concentration': '1.5 g/g', 'total_quantity': '10 g'}, 'refuse', 'unreachable-fraction'),
                            ({'concentration': '1 g/g', 'total_quantity': '10 g'}, 'refuse', 'no-solvent-left'),
                            ({'concentration': '0.5 M', 'quantity': '-1 g'}, 'refuse', 'negative-quantity'),
                            ({'quantity': '20 g', 'total_quantity': '10 g'}, 'refuse', 'solute-exceeds-total'),
                            ({'quantity': '2 g', 'total_quantity': '10 g'}, 'accept', 'reachable'),
                            ({'concentration': '0 M', 'total_quantity': '10 mL'}, 'refuse', 'zero-concentration')):
        add(f"create_solution,{tag}", {}, [], {'op': 'create_solution', 'solute': 'nacl', 'solvent': 'water', 'name': 'N',
                                               'kw': kw}, expect)
    # several solutes, concentration AND quantity for each (over-determined): contradictory in either direction
    for qs, tag in ((['1 g', '5 g'], 'later-quantity-too-large'), (['1 g', '0.5 g'], 'later-quantity-too-small'),
                    (['5 g', '1 g'], 'first-quantity-too-large')):
        add(f"create_solution,inconsistent,{tag}", {}, [],
            {'op': 'create_solution', 'solute': ['nacl', 'na2so4'], 'solvent': 'water', 'name': 'N',
             'kw': {'concentration': ['1 M', '1 M'], 'quantity': qs}}, 'refuse')
    Ws = {'V': ('container', 'inf L', [('water', '5 mL')])}
    # several solutes: a negative (or unreachable) entry is refused wherever it stands in the list
    for pos in (0, 1, 2):
        for key, good, bad_ in (('quantity', '2 mmol', '-1 mmol'), ('concentration', '0.1 M', '-0.05 M')):
            for n_sol in (2, 3):
                if pos >= n_sol:
                    continue
                vals = [good] * n_sol
                vals[pos] = bad_
                add(f"create_solution,negative-entry,{key},position={pos + 1}-of-{n_sol}", {}, [],
                    {'op': 'create_solution', 'solute': ['nacl', 'na2so4', 'dmso'][:n_sol], 'solvent': 'water', 'name': 'N',
                     'kw': {key: vals, 'total_quantity': '10 mL'}}, 'refuse')
    add('create_solution,container-solvent,exceeds-solvent', Ws, [],
        {'op': 'create_solution', 'solute': 'nacl', 'solvent': 'V', 'name': 'N',
         'kw': {'concentration': '0.1 M', 'total_quantity': '50 mL'}}, 'refuse')
    add('create_solution,container-solvent,reachable', Ws, [],
        {'op': 'create_solution', 'solute': 'nacl', 'solvent': 'V', 'name': 'N',
         'kw': {'concentration': '0.1 M', 'total_quantity': '3 mL'}}, 'accept')
    # 7. create_solution_from
    Wx = {'K': ('container', 'inf L', [('water', '10 mL'), ('nacl', '10 mmol')])}
    for c, q, expect, tag in (('0.5 M', '5 mL', 'accept', 'reachable'), ('2 M', '5 mL', 'refuse', 'above-stock'),
                              ('0.5 M', '50 mL', 'refuse', 'exceeds-stock'), ('0.5 M', '-5 mL', 'refuse', 'negative'),
                              ('0.05 g/g', '5 g', 'accept', 'reachable'), ('0.5 M', '5 g', 'accept', 'reachable')):
        add(f"create_solution_from,{tag}", Wx, [], {'op': 'create_solution_from', 'src': 'K', 'solute': 'nacl', 'conc': c,
                                                    'solvent': 'water', 'q': q, 'name': 'N'}, expect)
    # ... with the solvent drawn from a container that holds less / enough of it
    Wsv = {'K': ('container', 'inf L', [('water', '10 mL'), ('nacl', '10 mmol')]), 'V': ('container', 'inf L', [('water', '2 mL')])}
    for q, expect, tag in (('10 mL', 'refuse', 'exceeds-solvent-container'), ('3 mL', 'accept', 'solvent-container,reachable')):
        add(f"create_solution_from,{tag}", Wsv, [], {'op': 'create_solution_from', 'src': 'K', 'solute': 'nacl', 'conc': '0.5 M',
                                                    'solvent': 'V', 'q': q, 'name': 'N'}, expect)
    # 8. drained vessels: a container whose whole content was transferred away keeps its substances with amount 0.0
    Wd2 = {'K': ('container', 'inf L', [('water', '10 mL'), ('nacl', '10 mmol')]),
           'K2': ('container', 'inf L', [('water', '10 mL'), ('nacl', '10 mmol')]),
           'V': ('container', 'inf L', [('water', '30 mL')]), 'Z': ('container', 'inf L', []), 'Z2': ('container', 'inf L', [])}
    drain = [T('K', 'Z', '@volume'), T('V', 'Z2', '@volume')]
    add('create_solution_from,drained-source', Wd2, drain,
        {'op': 'create_solution_from', 'src': 'K', 'solute': 'nacl', 'conc': '0.5 M', 'solvent': 'water', 'q': '5 mL', 'name': 'N'},
        'refuse')
    add('create_solution_from,drained-solvent-container', Wd2, drain,
        {'op': 'create_solution_from', 'src': 'K2', 'solute': 'nacl', 'conc': '0.5 M', 'solvent': 'V', 'q': '5 mL', 'name': 'N'},
        'refuse')
    add('create_solution,drained-solvent-container', Wd2, drain,
        {'op': 'create_solution', 'solute': 'nacl', 'solvent': 'V', 'name': 'N',
         'kw': {'concentration': '0.1 M', 'total_quantity': '3 mL'}}, 'refuse')
    for q in ('1 mL', '1 g', '1 mmol', '1 U'):
        add(f"transfer,drained-source,unit={q.split()[1][-1]}", Wd2, drain, T('K', 'K2', q), 'refuse')
    add('dilute,drained', Wd2, drain, {'op': 'dilute', 'obj': 'K', 'solute': 'nacl', 'conc': '0.1 M', 'solvent': 'water'}, 'refuse')
    add('fill_to,drained', Wd2, drain, {'op': 'fill_to', 'obj': 'K', 'solvent': 'water', 'q': '5 mL'}, 'accept')
    add('remove,drained', Wd2, drain, {'op': 'remove', 'obj': 'K', 'what': 'water'}, 'accept')
    add('transfer,into-drained', Wd2, drain, T('K2', 'K', '1 mL'), 'accept')
    # a hair above what the stock holds: whichever way the decision falls, nothing impossible may come back (a 'tolerated'
    # over-shoot is paid for with a negative amount of solvent)
    for f in ('1.0002', '1.00003', '1.000001'):
        for solvent in ('water', 'dmso'):
            add(f"create_solution_from,hair-above-stock,{'own' if solvent == 'water' else 'foreign'}-solvent", Wx, [],
                {'op': 'create_solution_from', 'src': 'K', 'solute': 'nacl', 'conc': f'@cur@{f}@M', 'solvent': solvent, 'q': '1 mL',
                 'name': 'N'}, 'either')
    return cases


_G = {}


def symbolic(pp, subs, world, act):
    """Resolve '@...' markers with the reference model so that a case sits on the intended side of its boundary
    under every valuation. Values are written with 9 significant digits (the margins are 5 % or 0.1 %)."""
    from .. import ref
    from fractions import Fraction as F
    act = dict(act)
    q = act.get('q', '')
    if q.startswith('@cur-hair@'):                  # fill_to: the current quantity minus a hair, written with 17 digits
        _, _, hair, unit = q.split('@')
        cur = ref.measure(pp, world[e1.refname(act['obj'])].contents, unit)
        act['q'] = f"{float(cur - F(hair)):.17g} {unit}"
    elif q.startswith('@cur@'):                     # fill_to: factor x current quantity of the object
        _, _, f, unit = q.split('@')
        cur = ref.measure(pp, world[e1.refname(act['obj'])].contents, unit)
        act['q'] = f"{float(cur) * float(f) * 1000:.9g} m{unit}"
    elif q in ('@volume', '@third'):                 # the source's own reported volume, printed exactly
        v = world[act['src']].volume
        act['q'] = f"{(v if q == '@volume' else v / 3)!r} {pp.config.volume_storage_unit}"
    elif q.startswith('@'):                          # transfer: factor x what the source holds
        _, f, unit = q.split('@')
        total = ref.measure(pp, world[act['src']].contents, unit)
        prefix = '' if unit == 'U' else 'm'
        act['q'] = f"{float(total) * float(f) / (1e-3 if prefix else 1):.9g} {prefix}{unit}"
    c = act.get('conc', '')
    if c.startswith('@'):
        _, mode, f, cu = c.split('@')
        obj = world[act.get('obj') or act['src']]
        mult, num, den = ref.parse_concentration('1 ' + cu)
        solute, solvent = subs[act['solute']], subs[act['solvent']]
        if mode == 'cur':
            val = ref.conc(pp, obj.contents, solute, num, den) / mult * F(f)
        else:                                        # concentration at which the diluted solution fills f x capacity
            rs = ref.rsub(solvent)
            vt = F(obj.max_volume) * ref.storage_prefix(pp, 'L') * F(f)         # litres
            add_mol = (vt - ref.measure(pp, obj.contents, 'L')) / ref.per_base(rs, 'L')
            contents = dict(obj.contents)
            contents[solvent] = contents.get(solvent, 0) + float(ref.to_stored(pp, rs, add_mol))
            val = ref.conc(pp, contents, solute, num, den) / mult
        act['conc'] = f"{float(val):.12g} {cu}"
    return act


def run_case(case, vidx=None):
    """Execute one boundary case; returns (violations, outcome class)."""
    from .. import ref
    pp = _G.get('pp') or env.load()
    vidx = _G.get('vidx', 0) if vidx is None else vidx
    spec = {k: tuple(v) for k, v in case['spec'].items()}
    subs, world = e1.build(pp, vidx, spec, [])
    for pa in case['pre']:
        o = e1.apply(pp, subs, world, symbolic(pp, subs, world, pa))
        if o['ok']:
            world = e1.commit(world, o)
    act = dict(case['act'])
    expect = case['expect']
    act = symbolic(pp, subs, world, act)
    if case['feature'].endswith('unreachable-molarity'):
        # 100 M is out of reach only where the pure solute itself is less concentrated (a configuration may give solids
        # zero volume: then every molarity can be reached)
        rs = ref.rsub(subs[act['solute']])
        expect = 'accept' if rs.rho is None else 'refuse' if rs.rho * 1000 / rs.mw < 99 else 'either'
    pre_exact = e1.exact_world(world)
    env.clear_caches(pp)
    obs = (e1.apply_via_recipe if case['recipe'] else e1.apply)(pp, subs, world, act)
    feat = case['feature'] + (',recipe' if case['recipe'] else '')
    rec = {'vidx': vidx, 'case': case}
    vs = []
    desc = ('recipe step ' if case['recipe'] else '') + e1.act_str(act)
    if obs['ok']:
        bad = None
        for name, o in obs['new'].items():
            units = [o] if not e1.is_plate(o) else list(o.wells.flatten())
            for c in units:
                bad = bad or monitors.sane_container(pp, c)
        if bad:
            vs.append(V(f"{act['op']} | {'negative-contents' if 'negative' in bad else 'over-capacity'} | {feat}",
                        f"{desc} returned an object with {bad}", rec, expect, 'returned'))
        elif expect == 'refuse':
            vs.append(V(f"{act['op']} | accepted-infeasible | {feat}", f"{desc} must raise ValueError but returned",
                        rec, 'ValueError', 'returned'))
        outcome = 'returned'
    else:
        exc = obs['exc']
        outcome = type(exc).__name__
        if not isinstance(exc, ValueError):
            vs.append(V(f"{act['op']} | wrong-exception | {feat}",
                        f"{desc} raised {outcome}: {exc} (a refusal must be a ValueError)", rec, expect, outcome))
        elif expect == 'accept':
            vs.append(V(f"{act['op']} | refused-feasible | {feat}", f"{desc} fits but raised ValueError: {exc}", rec,
                        'returns', f"ValueError: {exc}"))
    return vs, (case['feature'], case['recipe'], outcome)


def boundaries(col, pp):
    vals = [col.seed % 3] if col.tier == 'quick' else [0, 1, 2]
    for v in vals:
        cases = boundary_cases(v)
        _G.update(pp=pp, vidx=v)
        res = par.pmap(run_case, cases)
        classes = set()
        for vs, oc in res:
            col.add(vs)
            classes.add(oc)
        col.count('transitions', len(cases))
        col.count('traces', len(cases))
        col.count('evaluations', len(cases))
        col.note_nontrivial({report.digest(('B', v, c)) for c in classes})
        col.cov.setdefault('boundary', []).append({'valuation': v, 'cases': len(cases), 'distinct_outcome_classes': len(classes),
                                                   'must_accept': sum(c['expect'] == 'accept' for c in cases),
                                                   'must_refuse': sum(c['expect'] == 'refuse' for c in cases),
                                                   'dont_care': sum(c['expect'] == 'either' for c in cases)})
    col.sample({'boundary_case': cases[3]})
    col.sample({'boundary_case': cases[len(cases) // 2]})


def _program_children(prog_idx):
    """Bake every one-step extension of a program; judge every object the bake returns."""
    from pmc import e2
    pp, vidx, voc = _G['pp'], _G['vidx'], _G['voc']
    program = [voc[i] for i in prog_idx]
    out = []
    for ai, act in enumerate(voc):
        if not e2.enabled(program, act):
            continue
        b = e2.bake(pp, vidx, program + [act])
        why = None
        if not b['ok'] and not isinstance(b['exc'], (ValueError, TypeError, RuntimeError)):
            why = ('<recipe>', None, f"negative: {'bake()' if b['phase'] == 'bake' else 'adding the step'} raised "
                                       f"{type(b['exc']).__name__}: {b['exc']} (a refusal is a ValueError)")
        elif not b['ok'] and b['phase'] == 'bake' and isinstance(b['exc'], ValueError):
            # a recipe with a step that cannot be carried out stays refused however often bake() is called
            fp = e1.exact_world(b['world'])
            for attempt in (2, 3):
                try:
                    b['recipe'].bake()
                    why = ('<recipe>', None, f"negative: bake() number {attempt} returned although bake() number 1 was refused "
                                               f"({b['exc']})")
                    break
                except ValueError:
                    pass
                except Exception as e:  # noqa
                    why = ('<recipe>', None, f"negative: bake() number {attempt} raised {type(e).__name__}: {e}")
                    break
            if why is None and e1.exact_world(b['world']) != fp:
                why = ('<recipe>', None, "negative: a refused bake() changed an object handed to uses()")
        if b['ok']:
            for name, o in sorted(b['results'].items()):
                units = [(None, o)] if not e1.is_plate(o) else [((r + 1, c + 1), o.wells[r, c])
                                                                for r in range(o.wells.shape[0])
                                                                for c in range(o.wells.shape[1])]
                for rc, c in units:
                    w = monitors.sane_container(pp, c)
                    if w:
                        why = (name, rc, w)
                        break
                if why:
                    break
        out.append((ai, b['ok'], why))
    return out


def recipe_programs(col, pp, vidx, depth):
    """(c) every recipe program of the E2 vocabulary up to `depth` steps: every object a bake hands out is possible."""
    from pmc import e2
    voc = e2.vocabulary()
    _G.update(pp=pp, vidx=vidx, voc=voc)
    frontier, bakes, reported = [()], 0, set()
    for level in range(depth):
        res = par.pmap(_program_children, frontier, chunk=1 if len(frontier) < 2000 else None)
        nxt = []
        for p, out in zip(frontier, res):
            for ai, ok, why in out:
                bakes += 1
                if ok and why is None:
                    nxt.append(p + (ai,))      # an impossible state is reported once, where it first appears
                if why:
                    act = voc[ai]
                    kind = 'wrong-exception' if 'a refusal is a ValueError' in why[2] else \
                        'infeasible-accepted-on-rebake' if why[0] == '<recipe>' else \
                        'negative-contents' if 'negative' in why[2] else 'over-capacity'
                    sig = f"recipe {act['op']} | {kind} | step={e2.step_kind(act)}"
                    program = [voc[i] for i in p] + [act]
                    col.add([V(sig, f"bake of {[e1.act_str(a) for a in program]} returned {why[0]}"
                                    f"{'' if why[1] is None else list(why[1])} with {why[2]}".replace('with negative: ', ': '),
                               {'program': program, 'vidx': vidx})])
        frontier = nxt
    col.count('transitions', bakes)
    col.count('traces', bakes)
    col.count('evaluations', bakes)
    col.count('states', len(frontier))
    col.cov.setdefault('recipe_programs', []).append({'valuation': vidx, 'depth': depth, 'bakes': bakes})


def replay_program(pp, case):
    from pmc import e2
    _G.update(pp=pp, vidx=case['vidx'], voc=case['program'])
    out = []
    b = e2.bake(pp, case['vidx'], case['program'])
    act = case['program'][-1]
    if not b['ok'] and not isinstance(b['exc'], (ValueError, TypeError, RuntimeError)):
        out.append(V(f"recipe {act['op']} | wrong-exception | step={e2.step_kind(act)}", f"raised {type(b['exc']).__name__}", case))
    elif not b['ok'] and b['phase'] == 'bake':
        for attempt in (2, 3):
            try:
                b['recipe'].bake()
                out.append(V(f"recipe {act['op']} | infeasible-accepted-on-rebake | step={e2.step_kind(act)}",
                             f"bake() number {attempt} returned", case))
                break
            except ValueError:
                pass
            except Exception as e:  # noqa
                out.append(V(f"recipe {act['op']} | infeasible-accepted-on-rebake | step={e2.step_kind(act)}",
                             f"bake() number {attempt} raised {type(e).__name__}", case))
                break
    if b['ok']:
        for name, o in sorted(b['results'].items()):
            units = [o] if not e1.is_plate(o) else list(o.wells.flatten())
            for c in units:
                w = monitors.sane_container(pp, c)
                if w:
                    kind = 'negative-contents' if 'negative' in w else 'over-capacity'
                    out.append(V(f"recipe {act['op']} | {kind} | step={e2.step_kind(act)}", w, case))
    return out


def run(col):
    pp = env.load()
    col.rule = ("(a) state-sanity monitor (amounts >= 0, 0 <= volume <= capacity) on every object returned, and feasibility monitor "
                "(a transfer / remove / fill_to that clearly fits must not raise, one that clearly over-draws / over-fills / undershoots must not "
                "return; only ValueError/TypeError/RuntimeError are ever raised) along every "
                "history of the full operation menu incl. infeasible requests, depth 2 (quick) / 3 (thorough), plus the "
                "C01 geometry/unit sweeps and C01's 48-action history alphabet to depth 3 / 4; (b) boundary enumeration: for every operation and feasibility constraint the "
                "requests below / at / above the boundary, directly and as a recipe step, classified must-accept / "
                "must-refuse(ValueError) / don't-care; (c) the same sanity judgement on every object handed out by the bake "
                "of every recipe program over the E2 vocabulary, depth 2 (quick) / 3 (thorough); (d) 47 two-step recipes whose second step "
                "(fill_to in mL / g / mmol) fits only on the vessel as the first step left it, and dilutions of one liquid with another: the recipe "
                "accepts / refuses what the container operations accept / refuse. Non-trivial = distinct (feature, outcome) classes")
    col.assumptions += ["'at the boundary' is must-accept only where the boundary is an exact decimal of the request",
                        "a refused request may be refused with any ValueError subclass (numpy LinAlgError is one)"]
    boundaries(col, pp)
    _G.update(pp=pp)
    prechecks(col, pp)
    vals = [col.seed % 3] if col.tier == 'quick' else [0, 1, 2]
    for v in vals:
        e1.Explorer(pp, v, e1.W_DEFAULT, e1.seed_history_P(), full_alphabet(), MONS, 'F').run(
            2 if col.tier == 'quick' else 3, col)
        e1.Explorer(pp, v, e1.W_DEFAULT, e1.seed_history_P(), alphabets.geometry_sweep(), MONS, 'G/S0').run(1, col)
        e1.Explorer(pp, v, e1.W_DEFAULT, e1.seed_history_P(), alphabets.unit_sweep(), MONS, 'U/S0').run(1, col)
        e1.Explorer(pp, v, W_CAP, [], capacity_alphabet(), MONS, 'K').run(3 if col.tier == 'quick' else 4, col)
        # the transfer-heavy history alphabet of C01 (drained wells, pooled wells, same-plate transfers) under the same monitors
        e1.Explorer(pp, v, e1.W_DEFAULT, e1.seed_history_P(), alphabets.history_alphabet(), MONS, 'H').run(
            3 if col.tier == 'quick' else 4, col)
        # two versions of one plate (distinct objects under one name, other contents): feasibility is judged on the plate that
        # is actually addressed
        wv = dict(e1.W_DEFAULT, Pv=('plate', '500 uL', 2, 3, 'P'))
        hv = e1.seed_history_P() + [alphabets.T('B', ['Pv', f"({r}, {c})"], f"{4 * (r + c)} uL") for r in (1, 2) for c in (1, 2, 3)]
        vers = [alphabets.T(['Pv', a] if a != 'WHOLE' else 'Pv', ['P', b] if b != 'WHOLE' else 'P', q)
                for a in alphabets.P_SLICES[::2] + ['WHOLE'] for b in alphabets.P_SLICES[1::2] + ['WHOLE', alphabets.P_SLICES[0]]
                for q in ('4 uL', '15 uL', '1 mg')] + \
               [alphabets.T(['P', a], ['Pv', b], '15 uL') for a in alphabets.P_SLICES[::3] for b in alphabets.P_SLICES[1::3]]
        e1.Explorer(pp, v, wv, hv, vers, MONS, 'V/same-named-plates').run(1, col)
        recipe_programs(col, pp, v, 2 if col.tier == 'quick' else 3)


# ---- (d) the recipe's own pre-checks: a step is judged on the vessel as the earlier steps of the recipe leave it -------------------
def precheck_cases():
    import itertools
    for lower, unit, where in itertools.product(('transfer-volume', 'transfer-mass', 'remove'), ('mL', 'g', 'mmol'),
                                                ('between', 'above-declared', 'below-current')):
        yield {'kind': 'fill_to-after-lowering', 'lower': lower, 'unit': unit, 'where': where}
    for solute, solvent in (('water', 'dmso'), ('dmso', 'water'), ('water', 'tea'), ('tea', 'water'), ('dmso', 'tea')):
        for cu in ('M', 'g/L', 'm', 'mol/mol'):
            yield {'kind': 'dilute-liquid-with-liquid', 'solute': solute, 'solvent': solvent, 'cu': cu}


def run_precheck(pc, vidx):
    """Two-step recipes whose second step fits only on the vessel as the first step left it (never on the declared one), and
    dilutions of one liquid with another: the recipe must accept what the container operations accept, refuse what they refuse."""
    from .. import ref
    from . import C05
    pp = _G.get('pp') or env.load()
    subs = e1.substances(pp, vidx)
    C = pp.Container
    case = {'vidx': vidx, 'precheck': pc}
    water, dmso = subs['water'], subs['dmso']
    if pc['kind'] == 'fill_to-after-lowering':
        S = C('S', '20 mL', [(water, '6 mL'), (dmso, '2 mL'), (subs['nacl'], '1 mmol')])
        D = C('D', '20 mL')
        if pc['lower'] == 'remove':
            eager = lambda s, d: (s.remove(dmso), d)                                  # noqa
            add = lambda r: r.remove(S, dmso)                                         # noqa
        else:
            q = '5 mL' if pc['lower'] == 'transfer-volume' else '4.5 g'
            eager = lambda s, d: C.transfer(s, d, q)                                  # noqa
            add = lambda r: r.transfer(S, D, q)                                       # noqa
        S1, _ = eager(S, D)
        pf, base = ref.split_unit(pc['unit'])
        cur, decl = ref.measure(pp, S1.contents, base) / pf, ref.measure(pp, S.contents, base) / pf
        target = {'between': (cur + decl) / 2, 'above-declared': decl * 5 / 4, 'below-current': cur * 9 / 10}[pc['where']]
        qstr = C05.fmt(target, pc['unit'])
        second_eager = lambda s: s.fill_to(water, qstr)                               # noqa
        second_add = lambda r: r.fill_to(S, water, qstr)                              # noqa
        desc = f"recipe [{pc['lower']} out of S ; S.fill_to(water, {qstr!r})] (S holds {float(decl):.6g} {pc['unit']} when declared, {float(cur):.6g} after the first step)"
        feat = f"fill_to,after={pc['lower']},unit={base},target={pc['where']}"
        label = 'Recipe.fill_to'
    else:
        solute, solvent = subs[pc['solute']], subs[pc['solvent']]
        S = C('S', 'inf L', [(solute, '5 mL'), (solvent, '5 mL')])
        S1 = S
        add = None
        mult, num, den = ref.parse_concentration('1 ' + pc['cu'])
        cstr = C05.conc_str(ref.conc(pp, S.contents, solute, num, den) * 7 / 10, pc['cu'])
        second_eager = lambda s: s.dilute(solute, cstr, solvent)                      # noqa
        second_add = lambda r: r.dilute(S, solute, cstr, solvent)                     # noqa
        desc = f"recipe [S.dilute({pc['solute']}, {cstr!r}, {pc['solvent']})] on equal volumes of the two liquids (0.7 of the current value)"
        feat = f"dilute,solute={pc['solute']},solvent={pc['solvent']},unit={num}/{den}"
        label = 'Recipe.dilute'
    try:
        want = second_eager(S1)
        eager_outcome = 'returns'
    except ValueError:
        want, eager_outcome = None, 'ValueError'
    r = pp.Recipe()
    if add and pc['lower'] != 'remove':
        r.uses(S, D)
    else:
        r.uses(S)
    try:
        if add:
            add(r)
        second_add(r)
        got = r.bake()['S']
        outcome = 'returns'
    except ValueError as e:
        got, outcome = None, 'ValueError'
        msg = str(e)
    except Exception as e:  # noqa
        return [V(f"{label} | wrong-exception | precheck,{feat}", f"{desc} raised {type(e).__name__}: {e}", case)], (feat, type(e).__name__)
    if outcome != eager_outcome:
        if outcome == 'ValueError':
            return [V(f"{label} | refused-feasible | precheck,{feat}", f"{desc}: the container operations accept it, the recipe raised "
                      f"ValueError ({msg})", case, 'returns', 'ValueError')], (feat, outcome)
        return [V(f"{label} | accepted-infeasible | precheck,{feat}", f"{desc}: the container operation refuses it, the recipe returned",
                  case, 'ValueError', 'returns')], (feat, outcome)
    if got is not None:
        bad = monitors.sane_container(pp, got)
        if bad:
            return [V(f"{label} | impossible-result | precheck,{feat}", f"{desc}: bake returned S with {bad}", case)], (feat, 'bad')
        if e1.exact_obj(got) != e1.exact_obj(want) and any(
                abs(got.contents.get(k, 0.0) - want.contents.get(k, 0.0)) > 1e-9 * abs(want.contents.get(k, 0.0)) + 1e-9
                for k in set(got.contents) | set(want.contents)):
            return [V(f"{label} | differs-from-container-operation | precheck,{feat}", f"{desc}: bake returned other contents than the "
                      f"container operations", case)], (feat, 'differs')
    return [], (feat, outcome)


def prechecks(col, pp):
    vals = [col.seed % 3] if col.tier == 'quick' else [0, 1, 2]
    classes, n = set(), 0
    for v in vals:
        for pc in precheck_cases():
            vs, cls = run_precheck(pc, v)
            col.add(vs)
            classes.add(cls)
            n += 1
    col.count('transitions', n)
    col.count('traces', n)
    col.count('evaluations', n)
    col.note_nontrivial({report.digest(('D', c)) for c in classes})
    col.cov['recipe_prechecks'] = {'cases': n, 'classes': len(classes),
                                   'accepted': sum(c[1] == 'returns' for c in classes), 'refused': sum(c[1] == 'ValueError' for c in classes)}


def replay(case):
    pp = env.load()
    if 'precheck' in case:
        _G.update(pp=pp)
        return run_precheck(case['precheck'], case['vidx'])[0]
    if 'program' in case:
        return replay_program(pp, case)
    if 'case' in case and 'feature' in case.get('case', {}):
        _G.update(pp=pp)
        return run_case(case['case'], case['vidx'])[0]
    return e1.replay_case(pp, case, MONS)
