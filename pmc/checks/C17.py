"""C17 — remove deletes exactly the selected substances (all mixtures x selectors x object forms, direct and in a recipe)."""
import itertools

import numpy

from .. import e1, env, par, ref, report, selectors
from ..report import V

PID = 'C17'
PARTS = [('water', '3 mL'), ('dmso', '2 mL'), ('nacl', '1.5 mmol'), ('na2so4', '0.7 mmol'), ('lipase', '0.4 U')]
MIXTURES = [list(c) for r in range(1, 6) for c in itertools.combinations(range(5), r)]      # 31 non-empty subsets
SELECTORS = ['water', 'dmso', 'nacl', 'na2so4', 'lipase', 'SOLID', 'LIQUID', 'ENZYME', 'tea']
# twins (e1.TWINS): other substances carrying the name of nacl / dmso / lipase. Mixtures that hold a twin next to its
# namesake (plus up to two more parts), and the twins as selectors: a substance is selected by what it is, not by its name
PARTS += [('nacl_h', '0.9 mmol'), ('dmso_x', '1 mL'), ('lipase_s', '3 mg')]
N_PLAIN = len(MIXTURES)
for _a, _b in ((2, 5), (1, 6), (4, 7)):
    _rest = [i for i in range(8) if i not in (_a, _b)]
    for _r in range(0, 3):
        for _c in itertools.combinations(_rest, _r):
            _m = sorted((_a, _b) + _c)
            if _m not in MIXTURES:
                MIXTURES.append(_m)
TWIN_SELECTORS = ['nacl_h', 'dmso_x', 'lipase_s']
Q_SLICES = ["'A:1'", "(2, 2)", "('B', 1)", "1", "'B'", "(slice(None), 1)", "(slice(None), '2')", "slice(None)",
            "(slice(None), slice(None))", "['A:2', 'B:1']", "[(2, 2)]", "(slice(1, 2), slice(2, 2))"]

# sub-slices of a slice (0-based, undocumented): which wells they address is taken from the implementation's own
# direct view; what is judged is that remove acts on exactly those wells, directly and as a recipe step
SUB_SLICES = ["slice(None) || (slice(1, 2), slice(None))", "(slice(None), slice(None)) || (slice(0, 1), slice(1, 2))",
              "(slice(1, 2), slice(None)) || (slice(None), slice(0, 1))"]

# a list that names a well twice (two spellings of one well): which wells it addresses is taken from the implementation's own
# view (refusing such a list with ValueError is fine too); what is judged is that the well is emptied - and accounted for - once
DUP_SLICES = ["['A:1', 'B:2', (1, 1)]", "[(2, 1), 'B:1']"]

_G = {}


def mk_container(pp, subs, name, mix):
    return pp.Container(name, 'inf L', [(subs[PARTS[i][0]], PARTS[i][1]) for i in mix])


# plates without any liquid (mixture index -1, -2): every well holds solids and / or enzyme only - what a dried plate looks like
DRY_PLATES = [[[2], [3], [2, 3], [2, 4]], [[2, 5], [5], [7], [4, 7]]]


def mk_plate(pp, subs, mi):
    plate = pp.Plate('R', '50 mL', rows=2, columns=2)
    for j, (r, c) in enumerate([(1, 1), (1, 2), (2, 1), (2, 2)]):
        mix = MIXTURES[(mi + 7 * j) % len(MIXTURES)] if mi >= 0 else DRY_PLATES[-mi - 1][j]
        src = mk_container(pp, subs, 'src', mix)
        if src.volume > 0:
            _, plate = pp.Plate.transfer(src, plate[r, c], f"{src.volume!r} {pp.config.volume_storage_unit}")
        else:           # solids / enzymes without volume (a configuration): move them by mass
            g = float(ref.measure(pp, src.contents, 'g')) * 0.999       # (not all of it: the printed mass may round up)
            _, plate = pp.Plate.transfer(src, plate[r, c], f"{g!r} g")
    return plate


def selected(what, s):
    if what in e1.CLASSES:
        return {'SOLID': s.is_solid(), 'LIQUID': s.is_liquid(), 'ENZYME': s.is_enzyme()}[what]
    return e1.ident(s) == e1.ident(_G['subs'][what])


def expect_container(pp, c, what):
    return {e1.ident(s): a for s, a in c.contents.items() if not selected(what, s)}


def check_container(pp, before, after, what, where, case, feat):
    want = expect_container(pp, before, what)
    if e1.by_ident(after.contents) != want or len(after.contents) != len(want):
        return V(f"remove | wrong-contents | {feat}",
                 f"{where}: remove({what}) from {e1.contents_key(before, 9)} gives {e1.contents_key(after, 9)}", case,
                 [(s[0], a) for s, a in want.items()], e1.contents_key(after, 12))
    v = ref.volume_stored(pp, {s: a for s, a in before.contents.items() if not selected(what, s)})
    if abs(after.volume - float(v)) > ref.tol(pp, v, 0, scale=5):
        return V(f"remove | wrong-volume | {feat}", f"{where}: volume after remove({what}) is {after.volume!r}, contents occupy "
                 f"{float(v)!r}", case, float(v), after.volume)
    if after.name != before.name or after.max_volume != before.max_volume:
        return V(f"remove | identity-changed | {feat}", f"{where}: name/capacity changed", case)
    return None


def run_case(item):
    pp, vidx = _G['pp'], _G['vidx']
    subs = e1.substances(pp, vidx)
    _G['subs'] = subs
    mi, what, form, via = item
    arg = e1.CLASSES[what] if what in e1.CLASSES else subs[what]
    case = {'vidx': vidx, 'item': list(item)}
    feat = f"object={form if form.startswith('container') else 'plate' if form == 'plate' else 'slice'},via={via}," \
           f"selector={'class' if what in e1.CLASSES else 'substance'}" + (',twins' if mi >= N_PLAIN else '') + \
           (',dry-plate' if mi < 0 else '')
    env.clear_caches(pp)
    other = pp.Container('Z', 'inf L', [(subs['tea'], '1 mL')])
    if form in ('container', 'container-drained'):
        obj = mk_container(pp, subs, 'C', MIXTURES[mi])
        if form == 'container-drained':
            # everything was transferred away: the container keeps its substances with amount 0.0 - removing one of them still
            # removes it (the entry goes, get_substances / has_liquid follow)
            if not obj.volume > 0:
                return [], 'skip'
            obj, _ = pp.Container.transfer(obj, pp.Container('sink', 'inf L'), f"{obj.volume!r} {pp.config.volume_storage_unit}")
            if any(a != 0 for a in obj.contents.values()):
                return [], 'skip'
        target = obj
        addressed = None
    else:
        obj = mk_plate(pp, subs, mi)
        if form in DUP_SLICES:
            try:
                target = obj[selectors.ev(form)]
                target.remove(arg)
            except ValueError:
                return [], 'skip'
            names = {w.name for w in numpy.asarray(target.get()).flatten()}
            addressed = {(r, c) for r in range(2) for c in range(2) if obj.wells[r, c].name in names}
        elif '||' in form:
            a, b = form.split(' || ')
            target = obj[selectors.ev(a)][selectors.ev(b)]
            names = {w.name for w in numpy.asarray(target.get()).flatten()}
            addressed = {(r, c) for r in range(2) for c in range(2) if obj.wells[r, c].name in names}
        else:
            sel = selectors.ev(form) if form != 'plate' else slice(None)
            kind, wells, _ = selectors.resolve(list(obj.row_names), list(obj.column_names), sel)
            addressed = set(wells)
            target = obj if form == 'plate' else obj[sel]
    fp = e1.exact_obj(obj)
    recipe = None
    try:
        if via == 'direct':
            res = target.remove(arg)
        else:
            recipe = pp.Recipe()
            recipe.uses(obj, other)
            recipe.start_stage('s')
            recipe.remove(target, arg)
            recipe.end_stage('s')
            try:
                recipe.bake()                            # premature: 'other' is still unused - refused, and nothing is kept of it
                return [V(f"remove | premature-bake-accepted | {feat}", "bake() with an unused declared object returned", case)], 'bad'
            except ValueError:
                pass
            recipe.remove(other, subs['water'])          # a second used object; removes nothing
            res = recipe.bake()[obj.name]
    except Exception as e:  # noqa
        return [V(f"remove | raises | {feat}", f"remove({what}) on {form} ({via}) raised {type(e).__name__}: {e}", case)], 'raises'
    if e1.exact_obj(obj) != fp:
        return [V(f"remove | argument-mutated | {feat}", f"remove({what}) on {form} modified its argument", case)], 'mutated'
    removed = {}          # substance (by identity) -> stored amount actually expected to be discarded
    sub_of = {}
    if form in ('container', 'container-drained'):
        v = check_container(pp, obj, res, what, f"{form} {MIXTURES[mi]}", case, feat)
        if not v and set(res.get_substances()) != set(res.contents):
            v = V(f"remove | wrong-contents | get_substances,{feat}", f"{form} {MIXTURES[mi]}: after remove({what}) get_substances() "
                  f"lists {sorted(x.name for x in res.get_substances())}, contents hold {sorted(x.name for x in res.contents)}", case)
        if v:
            return [v], 'bad'
        removed = {e1.ident(s): a for s, a in obj.contents.items() if selected(what, s)}
        sub_of.update({e1.ident(s): s for s in obj.contents})
    else:
        if not e1.is_plate(res) or res.wells.shape != obj.wells.shape:
            return [V(f"remove | wrong-result-shape | {feat}", f"remove on {form} returned {type(res).__name__}", case)], 'bad'
        for r in range(2):
            for c in range(2):
                b, a = obj.wells[r, c], res.wells[r, c]
                if (r, c) in addressed:
                    v = check_container(pp, b, a, what, f"well {r + 1},{c + 1} of plate {mi} [{form}]", case, feat)
                    if v:
                        return [v], 'bad'
                    for s, amt in b.contents.items():
                        if selected(what, s):
                            removed[e1.ident(s)] = removed.get(e1.ident(s), 0.0) + amt
                            sub_of[e1.ident(s)] = s
                elif e1.exact_obj(b) != e1.exact_obj(a):
                    return [V(f"remove | frame-changed | {feat}",
                              f"remove({what}) on [{form}] changed well {r + 1},{c + 1}, which is not addressed", case)], 'bad'
    if recipe is None:
        return [], ('ok', bool(removed))
    # ---- the amounts removed are what usage tracking reports as discarded -----------------------------------------------
    for s in subs.values():
        want = removed.get(e1.ident(s), 0.0)
        unit = 'U' if s.is_enzyme() else pp.config.moles_storage_unit
        for tf in ('s', 'all'):
            try:
                got = recipe.get_substance_used(s, tf, unit, destinations=[other])
            except Exception as e:  # noqa
                return [V(f"remove | tracking-raises | {feat}", f"get_substance_used({s.name}, {tf!r}, destinations=[Z]) after "
                          f"recipe remove({what}) on {form} raised {type(e).__name__}: {e}", case)], 'bad'
            prec = pp.config.precisions.get(unit, pp.config.precisions['default'])
            if abs(got - want) > 0.5 * 10.0 ** -prec * 1.000001 + 1e-9:
                return [V(f"remove | tracking-mismatch | discarded,{feat}",
                          f"recipe remove({what}) on {form} of plate/mixture {mi}: {want!r} {unit} of {s.name} were removed from "
                          f"the addressed wells but get_substance_used(..., {tf!r}, destinations=[other object]) = {got!r}",
                          case, want, got)], 'bad'
    # out-flow of the object over the step, in mass (defined for every substance kind)
    want_mg = float(sum(ref.measure(pp, {sub_of[s]: a}, 'g') for s, a in removed.items())) * 1000
    try:
        flows = recipe.get_container_flows(obj, 's', 'mg')
        got_out = float(numpy.sum(flows['out']))
        got_in = float(numpy.sum(flows['in']))
    except Exception as e:  # noqa
        return [V(f"remove | tracking-raises | flows,{feat}", f"get_container_flows after recipe remove on {form} raised "
                  f"{type(e).__name__}: {e}", case)], 'bad'
    if abs(got_out - want_mg) > 0.06 * 4 + 1e-6 * want_mg or abs(got_in) > 0.06 * 4:
        return [V(f"remove | tracking-mismatch | flows,{feat}",
                  f"recipe remove({what}) on {form} of plate/mixture {mi}: {want_mg!r} mg were removed but get_container_flows "
                  f"reports out={got_out!r} in={got_in!r}", case, want_mg, got_out)], 'bad'
    # activity discarded, in activity units (the mass of an enzyme is too small to show in mg)
    want_u = float(sum(ref.measure(pp, {sub_of[s]: a}, 'U') for s, a in removed.items()))
    try:
        got_u = float(numpy.sum(recipe.get_container_flows(obj, 's', 'U')['out']))
    except Exception as e:  # noqa
        return [V(f"remove | tracking-raises | flows,{feat}", f"get_container_flows(..., 'U') raised {type(e).__name__}: {e}", case)], 'bad'
    if abs(got_u - want_u) > 0.0006 * 4 + 1e-6 * want_u:
        return [V(f"remove | tracking-mismatch | flows-activity,{feat}",
                  f"recipe remove({what}) on {form} of plate/mixture {mi}: {want_u!r} U were removed but get_container_flows(..., 'U') "
                  f"reports out={got_u!r}", case, want_u, got_u)], 'bad'
    return [], ('ok', bool(removed))


def run(col):
    pp = env.load()
    col.rule = ("all 31 non-empty mixtures of {2 liquids, 2 solids, 1 enzyme} x 9 selectors (each substance, each class, an absent "
                "substance), plus every mixture of a substance with a TWIN (another substance carrying its name: hydrate, other "
                "grade, inactive preparation) and up to two more parts x 12 selectors, plus two plates without any liquid in any well x {container, whole 2x2 plate with four different mixtures, 12 slice geometries} x {direct, recipe "
                "step}; result contents must equal the argument restricted to the non-selected substances exactly, volume by "
                "the reference model, unaddressed wells bit-identical; in a recipe get_substance_used(destinations=[another "
                "object]) and the out-flow of the object must equal the removed amounts of exactly the addressed wells. "
                "Non-trivial = distinct (object form, via, selector, mixture size, removed-something) classes")
    vals = [col.seed % 3] if col.tier == 'quick' else [0, 1, 2]
    forms = ['container', 'plate'] + Q_SLICES + SUB_SLICES + DUP_SLICES
    drained = [(mi, what, 'container-drained', via) for mi in range(N_PLAIN) for what in SELECTORS for via in ('direct', 'recipe')]
    for v in vals:
        _G.update(pp=pp, vidx=v)
        items = [(mi, what, form, via) for mi in range(len(MIXTURES))
                 for what in SELECTORS + (TWIN_SELECTORS if mi >= N_PLAIN else []) for form in forms
                 for via in ('direct', 'recipe')]
        items += [(mi, what, form, via) for mi in (-1, -2) for what in SELECTORS + TWIN_SELECTORS for form in forms[1:]
                  for via in ('direct', 'recipe')]
        items += drained
        res = par.pmap(run_case, items)
        classes = set()
        for it, (vs, oc) in zip(items, res):
            col.add(vs)
            classes.add((it[2], it[3], it[1], len(MIXTURES[it[0]]) if it[0] >= 0 else 'dry', oc))
        col.count('transitions', len(items))
        col.count('traces', len(items))
        col.count('evaluations', len(items))
        col.count('states', len(classes))
        col.note_nontrivial({report.digest((v, c)) for c in classes})
        col.cov.setdefault('valuations', []).append({'valuation': v, 'cases': len(items), 'classes': len(classes)})
        col.sample({'case': list(items[len(items) // 2])})
        col.sample({'case': list(items[100])})


def replay(case):
    pp = env.load()
    _G.update(pp=pp, vidx=case['vidx'])
    return run_case(tuple(case['item']))[0]
