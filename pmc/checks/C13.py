"""C13 — every documented way of addressing wells selects the documented wells (complete selector grammar, small plates)."""
import itertools

import numpy

from .. import env, par, report, selectors
from ..report import V

PID = 'C13'


def labelings(R, C):
    return [('default', R, C),
            ('alpha', ['i', 'ii', 'iii', 'iv', 'v', 'vi'][:R], ['a', 'b', 'c', 'd', 'e', 'f'][:C]),
            ('digits-permuted', ['2', '3', '1', '5', '4', '6'][:R], ['3', '1', '2', '5', '6', '4'][:C]),
            # labels are taken as given: blanks, letter case and look-alikes belong to the label
            ('blanks-and-case', [' r1', 'r2 ', 'R1', 'r 4', 'r1', 'R2 '][:R], ['x ', ' x', 'X', 'x', ' X ', 'y'][:C])]


def axis_specs(labels, thorough=False):
    """Valid (or don't-care) specifications of one axis, simplest first, and the reject family."""
    n = len(labels)
    valid = list(range(1, n + 1)) + list(labels)
    ends = [None] + list(range(1, n + 1)) + list(labels)
    steps = [None, 1, 2, 3]
    for a in ends:
        for b in ends:
            for k in steps:
                valid.append(slice(a, b, k))
    valid += [slice(None, None, 0), slice(1, None, -1)]            # don't-care, still executed
    other = 'ZZ' if 'ZZ' not in labels else 'QQ'
    bad = [0, n + 1, -1, other, 1.0, None if False else 2.5, slice(0, None), slice(None, n + 1), slice(other, None),
           slice(None, other), slice(1.0, None), slice(None, None, 1.5), slice(None, None, 'a'), (1,), [1],
           # zero and negative bounds lie outside the plate whatever the other bound is (Python's from-the-end convention is not
           # part of the documented grammar)
           slice(None, 0), slice(None, -1), slice(-1, None), slice(1, -1), slice(1, 0), slice(None, -2, 2), slice(-2, None, 2)]
    # label / integer confusion
    for x in ('1', 'A', 'a'):
        if x not in labels:
            bad.append(x)
    return valid, bad


def kind(spec):
    if isinstance(spec, bool):
        return 'bool'
    if isinstance(spec, int):
        return 'int'
    if isinstance(spec, str):
        return 'label'
    if isinstance(spec, slice):
        def t(x):
            return 'n' if x is None else 'i' if isinstance(x, int) and not isinstance(x, bool) else 's' if isinstance(x, str) else 'x'
        return f"slice[{t(spec.start)}{t(spec.stop)}{'k' if spec.step not in (None, 1) else ''}]"
    return type(spec).__name__


def form(sel):
    if isinstance(sel, str):
        return 'str-rc' if ':' in sel else 'bare:' + kind(sel)
    if isinstance(sel, list):
        return 'list:' + ','.join(sorted({('str' if isinstance(e, str) else 'tuple' if isinstance(e, tuple) else type(e).__name__)
                                          for e in sel}))
    if isinstance(sel, tuple):
        return 'tuple(' + ','.join(kind(x) for x in sel) + ')'
    return 'bare:' + kind(sel)


def selectors_for(rows, cols, thorough=False):
    rv, rb = axis_specs(rows)
    cv, cb = axis_specs(cols)
    out = []
    # single wells in the three documented spellings, all label pairs
    for r in rows:
        for c in cols:
            out.append(f"{r}:{c}")
    for r, c in itertools.product(list(range(1, len(rows) + 1)) + rows, list(range(1, len(cols) + 1)) + cols):
        out.append((r, c))
    out += rv                                   # bare row specs
    out += itertools.product(rv, cv)            # every (rowspec, colspec)
    singles = [f"{rows[0]}:{cols[0]}", (len(rows), len(cols)), (rows[-1], 1), f"{rows[-1]}:{cols[-1]}", (1, cols[-1])]
    for a in singles:
        out.append([a])
        for b in singles:
            if a != b:
                out.append([a, b])
    # reject family
    out += rb
    out += [(b, cv[0]) for b in rb] + [(rv[0], b) for b in cb] + [(b, slice(None)) for b in rb] + \
           [(slice(None), b) for b in cb] + [(rb[0], cb[1])]
    other = 'ZZ'
    out += [f"{other}:{cols[0]}", f"{rows[0]}:{other}", f"{rows[0]}:{cols[0]}:{cols[0]}", f":{cols[0]}", f"{rows[0]}:", ':',
            '', (1, 1, 1), (), (slice(None),), 1.0, None, 2.5, {'a': 1}, [f"{rows[0]}"], [1], [(1, 1, 1)], [(slice(None), 1)],
            [None], [f"{other}:{cols[0]}"], [(len(rows) + 1, 1)], [(0, 1)], [], True,
            (True, 1), [f"{rows[0]}:{cols[0]}", f"{rows[0]}:{cols[0]}"],
            # a list is refused as a whole when any element is outside the plate or malformed, wherever it stands
            [f"{rows[0]}:{cols[0]}", (len(rows) + 1, 1)], [(1, 1), f"{rows[-1]}:{cols[-1]}", (1, len(cols) + 1)],
            [f"{rows[0]}:{cols[0]}", (0, 1)], [(1, 1), None], [(1, 1), f"{other}:{cols[0]}"], [(1, 1), (1, 1, 1)]]
    # fractional numbers are no indices, wherever they stand and whatever their type (a Python float, a numpy scalar that came
    # out of numpy.mean or numpy.linspace); integral numpy scalars are left out: accepting them would be a legitimate extension
    out += [(1.5, 1), (1, 1.5), (numpy.float64(1.5), 1), (1, numpy.float64(1.5)), (numpy.float64(1.25), cols[0]),
            (rows[0], numpy.float32(1.5)), [(numpy.float64(1.5), 1)], (numpy.float64(0.5), 1), (slice(None), numpy.float64(1.5))]
    return out


_G = {}
_DECOYS = {}


def well_name(rows, cols, r, c):
    return f"well {rows[r]},{cols[c]}"


def judge(pp, plate, rows, cols, labeling, sel):
    """-> (violation or None, class)"""
    kind_, wells, shape = selectors.resolve(rows, cols, sel)
    # what a selector means on THIS plate does not depend on plates asked before: the same selector is first put to a decoy of
    # the same shape whose labels are the plate's labels in reverse order (part of the judged and replayed case)
    key = (tuple(rows), tuple(cols))
    if key not in _DECOYS:
        try:
            _DECOYS[key] = pp.Plate('decoy', '1 mL', rows=list(reversed(rows)), columns=list(reversed(cols)))
        except Exception:  # noqa
            _DECOYS[key] = None
    if _DECOYS[key] is not None:
        try:
            import copy as _copy
            _DECOYS[key][_copy.deepcopy(sel)]
        except Exception:  # noqa
            pass
    original = repr(sel) if isinstance(sel, list) else None
    if isinstance(sel, list):
        # what a list selects does not depend on what was asked before: every list is preceded by a list that is refused at its
        # SECOND element (its first element is valid) - part of the judged (and replayed) case
        for prelude in ([f"{rows[0]}:{cols[0]}"],                               # accepted: ends whatever an earlier case left
                        [f"{rows[0]}:{cols[0]}", (len(rows) + 1, 1)]):          # refused at its second element
            try:
                plate[prelude]
            except Exception:  # noqa
                pass
    try:
        view = plate[sel]
        got = numpy.asarray(view.get())
        names = [w.name for w in got.flatten()]
        outcome = ('ok', names, tuple(got.shape), int(view.size), tuple(view.shape))
        if original is not None and repr(sel) != original:
            return V(f"Plate.__getitem__ | selector-argument-changed | form=list,labeling={labeling}",
                     f"plate {len(rows)}x{len(cols)}: plate[s] with s = {original} rewrote the caller's list to {sel!r}",
                     {'rows': rows, 'cols': cols, 'labeling': labeling, 'sel': original}, original, repr(sel)), \
                (labeling, 'list', kind_, 'argument-changed')
        if isinstance(sel, list) and kind_ == selectors.OK:
            # a list selects its wells in the order given - also after the selection has been used
            try:
                view.remove()
            except Exception:  # noqa
                pass
            names2 = [w.name for w in numpy.asarray(view.get()).flatten()]
            if names2 != names:
                return V(f"Plate.__getitem__ | selection-changed-by-use | form={form(sel)},labeling={labeling}",
                         f"plate {len(rows)}x{len(cols)}: s = plate[{sel!r}] selected {names}; after s.remove() the same object selects "
                         f"{names2}", {'rows': rows, 'cols': cols, 'labeling': labeling, 'sel': repr(sel)}, names, names2), \
                    (labeling, form(sel), kind_, 'changed-by-use')
    except Exception as e:  # noqa
        outcome = ('raises', type(e).__name__)
    cls = (labeling, form(sel), kind_, outcome[0])
    case = {'rows': rows, 'cols': cols, 'labeling': labeling, 'sel': repr(sel)}
    feat = f"form={form(sel)},labeling={labeling}"
    if kind_ == selectors.DONTCARE:
        return None, cls
    if kind_ == selectors.REJECT:
        if outcome[0] == 'ok':
            return V(f"Plate.__getitem__ | accepted-malformed | {feat}",
                     f"plate {len(rows)}x{len(cols)} rows={rows} cols={cols}: [{sel!r}] must be rejected ({wells}) but selected "
                     f"{outcome[1]}", case, 'error', outcome[1]), cls
        return None, cls
    want = [well_name(rows, cols, r, c) for r, c in wells]
    if outcome[0] != 'ok':
        return V(f"Plate.__getitem__ | refused-valid | {feat}",
                 f"plate {len(rows)}x{len(cols)} rows={rows} cols={cols}: [{sel!r}] must select {want} but raised {outcome[1]}",
                 case, want, outcome[1]), cls
    if outcome[1] != want:
        return V(f"Plate.__getitem__ | selected-wrong-wells | {feat}",
                 f"plate {len(rows)}x{len(cols)} rows={rows} cols={cols}: [{sel!r}] selected {outcome[1]}, documented: {want}",
                 case, want, outcome[1]), cls
    if outcome[2] != tuple(shape) or outcome[3] != len(want) or outcome[4] != tuple(shape):
        return V(f"Plate.__getitem__ | wrong-shape | {feat}",
                 f"plate {len(rows)}x{len(cols)}: [{sel!r}] has shape {outcome[2]}/{outcome[4]} size {outcome[3]}, expected "
                 f"{tuple(shape)} / {len(want)}", case, list(shape), list(outcome[2])), cls
    return None, cls


def _shape_worker(item):
    pp = env.load()
    R, C, (lname, rl, cl) = item
    plate = pp.Plate('T', '100 uL', rows=rl, columns=cl)
    rows, cols = list(plate.row_names), list(plate.column_names)
    # labels themselves are part of the property (default rows A.., default columns '1'..)
    viols, classes, n, judged = [], set(), 0, 0
    if lname != 'default' and (rows != list(rl) or cols != list(cl)):
        return [V("Plate.__init__ | labels-changed | custom-labels",
                  f"a plate built with rows={list(rl)!r}, columns={list(cl)!r} carries rows={rows!r}, columns={cols!r}",
                  {'rows': list(rl), 'cols': list(cl), 'labeling': lname, 'sel': 'None'})], classes, n, judged
    if lname == 'default':
        if rows != selectors.default_rows(R) or cols != selectors.default_cols(C):
            viols.append(V("Plate.__init__ | default-labels | rows-or-columns",
                           f"default labels of a {R}x{C} plate are {rows}/{cols}", {'rows': R, 'cols': C, 'labeling': lname,
                                                                                  'sel': 'None'}))
            return viols, classes, n, judged
    names = [[w.name for w in row] for row in plate.wells]
    if names != [[well_name(rows, cols, r, c) for c in range(C)] for r in range(R)]:
        viols.append(V("Plate.__init__ | well-names | grid", f"well names of {R}x{C} plate: {names}",
                       {'rows': rows, 'cols': cols, 'labeling': lname, 'sel': 'None'}))
        return viols, classes, n, judged
    for sel in selectors_for(rows, cols):
        v, cls = judge(pp, plate, rows, cols, lname, sel)
        n += 1
        judged += cls[2] != selectors.DONTCARE
        classes.add(cls)
        if v:
            viols.append(v)
    return viols, classes, n, judged


def _tall_worker(item):
    """27x2 and 28x1 plates: labels beyond 'Z' (AA, AB): singles and edge slices."""
    pp = env.load()
    R, C = item
    plate = pp.Plate('T', '100 uL', rows=R, columns=C)
    rows, cols = list(plate.row_names), list(plate.column_names)
    viols, classes, n, judged = [], set(), 0, 0
    if rows != selectors.default_rows(R):
        viols.append(V("Plate.__init__ | default-labels | rows-beyond-Z", f"rows of a {R}x{C} plate: {rows[-3:]}",
                       {'rows': R, 'cols': C, 'labeling': 'default', 'sel': 'None'}))
        return viols, classes, n, judged
    sels = []
    for r in (1, 2, 25, 26, 27, R, 'A', 'Z', 'AA', rows[-1], R + 1, 0, 'AC' if R < 29 else 'ZZ', 'BA'):
        sels += [r, (r, 1), (r, cols[-1]), (r, slice(None)), slice(r, None), slice(None, r), slice(r, r),
                 (slice(r, None, 2), 1), f"{r}:1" if isinstance(r, str) else (r, '1'), [(r, 1)],
                 slice(26, r), slice('Z', r), slice(r, 'AA'), (slice(r, None, 5), slice(None))]
    for sel in sels:
        v, cls = judge(pp, plate, rows, cols, 'default-tall', sel)
        n += 1
        judged += cls[2] != selectors.DONTCARE
        classes.add(cls)
        if v:
            viols.append(v)
    return viols, classes, n, judged


def run(col):
    env.load()
    mx = 4 if col.tier == 'quick' else 6
    col.rule = (f"complete enumeration of the documented selector grammar (DESIGN Appendix B) on every plate shape R x C with "
                f"R, C in 1..{mx}, under 4 labelings (default, alphabetic custom, permuted digit strings, labels with blanks / differing only in case), plus 27x2 / 28x1 / "
                f"53x1 default plates for labels beyond 'Z', plus a reject family (out-of-range, unknown labels, label/int "
                f"confusion, floats, None, wrong tuple lengths, malformed 'r:c'); each judged against an independent resolver "
                f"written from the documentation. Non-trivial = distinct (labeling, selector form, expectation, outcome) classes")
    col.assumptions += ["don't-care (executed, not judged): step <= 0, start after stop, bool indices, empty or duplicate lists"]
    items = [(R, C, lab) for R in range(1, mx + 1) for C in range(1, mx + 1) for lab in labelings(R, C)]
    res = par.pmap(_shape_worker, items, chunk=1)
    res += par.pmap(_tall_worker, [(27, 2), (28, 1), (53, 1), (2, 27)], chunk=1)
    classes = set()
    for viols, cl, n, judged in res:
        col.add(viols)
        classes |= cl
        col.count('transitions', n)
        col.count('evaluations', n)
        col.count('traces', judged)
        col.count('judged', judged)
    col.count('states', len(items) + 4)
    col.note_nontrivial({report.digest(c) for c in classes})
    col.cov['plates'] = len(items) + 4
    col.cov['dont_care_executed'] = col.counters['evaluations'] - col.counters['judged']
    col.sample({'plate': '2x3 default', 'selector': "('A', slice(2, None))", 'expected': ['well A,2', 'well A,3']})
    col.sample({'plate': "2x3 digits-permuted cols ['3','1','2']", 'selector': "'2:1'", 'expected': ['well 2,1']})


def replay(case):
    pp = env.load()
    if case['sel'] == 'None':
        if isinstance(case['rows'], int):
            return _tall_worker((case['rows'], case['cols']))[0] if case['rows'] > 5 else \
                _shape_worker((case['rows'], case['cols'], ('default', case['rows'], case['cols'])))[0]
        return [v for v in _shape_worker((len(case['rows']), len(case['cols']), (case['labeling'], case['rows'], case['cols'])))[0]
                if 'labels-changed' in v['signature'] or 'well-names' in v['signature']]
    rows, cols = case['rows'], case['cols']
    plate = pp.Plate('T', '100 uL', rows=list(rows), columns=list(cols))
    v, _ = judge(pp, plate, list(plate.row_names), list(plate.column_names), case['labeling'], selectors.ev(case['sel']))
    return [v] if v else []
