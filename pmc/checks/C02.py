"""C02 — a transfer moves exactly the requested amount as a uniform aliquot (reference model per pair + drift chains)."""
from fractions import Fraction as F

from .. import alphabets, e1, env, monitors, par, ref, report
from ..report import V
from . import C01

PID = 'C02'
MONS = [monitors.m_aliquot]
T = alphabets.T

RING = [
    T('A', 'B', '1 mL'), T('B', 'E', '0.3 g'), T('E', 'A', '0.2 mmol'),
    T('A', ['P', "(1, slice(None))"], '30 uL'), T(['P', "(1, slice(None))"], 'E', '10 uL'),
    T('E', ['Q', "(slice(None), 1)"], '12 mg'), T(['Q', "(slice(None), 1)"], ['P', "(2, slice(2, 3))"], '3 uL'),
    T('A', 'E', '0.05 U'),
]


# ---- lock-step reference world for chains ----------------------------------------------------------------------
def ref_world(world):
    return {addr: {s: F(a) for s, a in c.contents.items()} for addr, c in monitors.all_units(world)}


def ref_transfer(pp, rw, world, act):
    """Apply the reference semantics of a transfer to rw (in place on a copy). Returns new rw or None if infeasible."""
    q, unit = ref.parse_quantity(act['q'])
    sreg, sshape = e1.region(world, act['src'])
    dreg, dshape = e1.region(world, act['dst'])
    pairs = monitors.pairs_of(sreg, sshape, dreg, dshape)
    if pairs is None or (set(sreg) & set(dreg)):
        return None
    n_out = {}
    for s, d in pairs:
        n_out[s] = n_out.get(s, 0) + 1
    new = {a: dict(c) for a, c in rw.items()}
    for s, m in n_out.items():
        M = sum(ref.base_amount(pp, ref.rsub(x), 1) * a * ref.per_base(ref.rsub(x), unit) for x, a in rw[s].items())
        if M == 0 or m * q > M:
            return None
        f = q / M
        for x, a in rw[s].items():
            new[s][x] = a * (1 - m * f)
        for s2, d in pairs:
            if s2 == s:
                for x, a in rw[s].items():
                    new[d][x] = new[d].get(x, F(0)) + a * f
    return new


def step_unc(pp, world, act):
    """Relative uncertainty one transfer adds, from the storage resolution of the source wells (see ratio_unc)."""
    unit = ref.parse_quantity(act['q'])[1]
    sreg, _ = e1.region(world, act['src'])
    dreg, _ = e1.region(world, act['dst'])
    m = max(1, len(dreg) if len(sreg) == 1 else 1)
    return 8 * m * m * max(monitors.ratio_unc(pp, e1.well_of(world, s).contents, unit) for s in sreg)


def totals(world):
    import math
    names = {}
    for addr, c in monitors.all_units(world):
        for x, a in c.contents.items():
            names.setdefault(x, []).append(a)
    return {x: math.fsum(v) for x, v in names.items()}


def conservation_vs_initial(pp, post, k):
    """Rounding must not drift: after k+1 transfers every substance total still equals the initial total, within
    one storage resolution per rounded amount (<= 12 wells written per step)."""
    t0 = _G['totals0']
    t = totals(post)
    for x in set(t0) | set(t):
        if abs(t.get(x, 0.0) - t0.get(x, 0.0)) > 10.0 ** -pp.config.internal_precision * 12 * (k + 1) + 1e-12 * abs(t0.get(x, 0)):
            return f"total {x.name} drifted from {t0.get(x, 0.0)!r} to {t.get(x, 0.0)!r} (storage units)"
    return None


_G = {}
PEAK = {}


def _chain_worker(prefix):
    pp, vidx, depth = _G['pp'], _G['vidx'], _G['depth']
    subs, world = e1.build(pp, vidx, e1.W_DEFAULT, e1.seed_history_P())
    rw = ref_world(world)
    _G['totals0'] = totals(world)
    PEAK.clear()
    for addr, c in monitors.all_units(world):      # largest amount of each substance anywhere: scale of residues
        for x, a in c.contents.items():
            for addr2, _ in monitors.all_units(world):
                PEAK[(addr2, x)] = max(PEAK.get((addr2, x), 0.0), 0.0)
            PEAK[(addr, x)] = max(PEAK.get((addr, x), 0.0), a)
    viols, stats = [], {'nodes': 0, 'refused': 0, 'max_dev': 0.0, 'leaves': 0}

    def step(world, rw, act, k, hist, budget=0.0):
        env.clear_caches(pp)
        obs = e1.apply(pp, subs, world, act)
        stats['nodes'] += 1
        if not obs['ok']:
            stats['refused'] += 1
            return None
        rw2 = ref_transfer(pp, rw, world, act)
        if rw2 is None:
            return None
        post = e1.commit(world, obs)
        case = {'vidx': vidx, 'chain': hist + [act]}
        vs = monitors.m_aliquot({'pp': pp, 'subs': subs, 'k': k, 'case': case}, world, act, obs, post)
        if vs:
            viols.extend(vs)
            return None
        why = conservation_vs_initial(pp, post, k)
        if why:
            viols.append(V(f"transfer-chain | cumulative-loss | unit={monitors.qbase(act['q'])}",
                           f"after {k + 1} chained transfers ({' ; '.join(e1.act_str(a) for a in hist + [act])}): {why}",
                           case))
            return None
        budget = 2 * budget + step_unc(pp, world, act) + 2e-9
        for addr, c in monitors.all_units(post):
            exp = rw2[addr]
            for x in set(exp) | set(c.contents):
                e, g = exp.get(x, F(0)), c.contents.get(x, 0.0)
                dev = abs(g - float(e))
                stats['max_dev'] = max(stats['max_dev'], dev)
                # a residue is a difference of larger amounts: the relative budget applies to the amounts involved
                mag = max(abs(float(e)), float(rw[addr].get(x, 0)), PEAK.get((addr, x), 0.0))
                if dev > ref.tol(pp, e, k, scale=4) + budget * mag:
                    viols.append(V(f"transfer-chain | drift | unit={monitors.qbase(act['q'])}",
                                   f"after {k + 1} chained transfers ({' ; '.join(e1.act_str(a) for a in hist + [act])}) "
                                   f"{addr} holds {g!r} of {x.name}, exact arithmetic gives {float(e)!r}",
                                   {'vidx': vidx, 'chain': hist + [act]}, float(e), g))
                    return None
        return post, rw2, budget

    def dfs(world, rw, k, hist, budget):
        if k == depth:
            stats['leaves'] += 1
            return
        for act in RING:
            r = step(world, rw, act, k, hist, budget)
            if r is not None:
                dfs(r[0], r[1], k + 1, hist + [act], r[2])

    hist = []
    k = 0
    budget = 0.0
    for ai in prefix:
        r = step(world, rw, RING[ai], k, hist, budget)
        if r is None:
            return viols, stats
        world, rw, budget = r
        hist = hist + [RING[ai]]
        k += 1
    dfs(world, rw, k, hist, budget)
    return viols, stats


def chains(col, pp, vidx, depth):
    _G.update(pp=pp, vidx=vidx, depth=depth)
    n = len(RING)
    prefixes = [(i, j) for i in range(n) for j in range(n)]
    res = par.pmap(_chain_worker, prefixes, chunk=1)
    # the shared first two levels are re-executed per prefix; count them once
    nodes = sum(s['nodes'] for _, s in res) - 2 * len(prefixes) + n + n * n
    for v, s in res:
        col.add(v)
    col.count('transitions', max(nodes, 0))
    col.count('traces', sum(s['leaves'] for _, s in res))
    col.count('evaluations', max(nodes, 0))
    col.cov.setdefault('chains', []).append({'valuation': vidx, 'ring': len(RING), 'depth': depth,
                                             'chain_steps_executed': nodes,
                                             'complete_chains': sum(s['leaves'] for _, s in res),
                                             'refused_steps_pruned': sum(s['refused'] for _, s in res),
                                             'max_abs_deviation_storage_units': max(s['max_dev'] for _, s in res)})
    col.sample({'chain': [e1.act_str(a) for a in RING[:4]], 'valuation': vidx})


def run(col):
    pp = env.load()
    col.rule = ("as C01 (G, U, H sweeps) judged per source/destination pair against the exact-rational aliquot; plus every "
                "chain over an 8-transfer ring alphabet up to depth 5 (quick) / 7 (thorough) in lock-step with the "
                "reference (drift). Non-trivial = distinct observation classes")
    col.assumptions += ["quantities are multiples of the documented internal resolution (1e-10 of the storage unit)",
                        "overlapping regions, refused calls and infeasible requests are judged by C01/C03/C07"]
    C01.sweeps(col, pp, MONS)
    vals = [col.seed % 3] if col.tier == 'quick' else [0, 1, 2]
    for v in vals:
        chains(col, pp, v, 5 if col.tier == 'quick' else 7)


def replay(case):
    pp = env.load()
    if 'chain' in case:
        idx = []
        for a in case['chain']:
            idx.append(RING.index(a))
        _G.update(pp=pp, vidx=case['vidx'], depth=len(idx))
        vs, _ = _chain_worker(tuple(idx))
        return vs
    return e1.replay_case(pp, case, MONS)
