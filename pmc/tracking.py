"""Usage-tracking oracles (C09, C15): an independent per-step ledger built from prefix bakes, compared with
Recipe.get_substance_used / get_container_flows / get_amount_remaining under every stage layout."""
import itertools

import numpy

from . import e1, e2, env, par, ref, report
from .report import V

_G = {}
USED_UNITS = {'water': ['umol', 'mL', 'g'], 'nacl': ['umol', 'mmol', 'mg'], 'dmso': ['umol', 'uL', 'mg'],
              'lipase': ['U', 'mg', 'uL', 'mU'], 'tea': ['umol', 'mL', 'mg'], 'na2so4': ['umol'], 'lipase_s': ['umol', 'mg']}
FLOW_UNITS = ['uL', 'mL', 'mg', 'umol', 'U']


def prec(pp, unit):
    p = pp.config.precisions
    return p[unit] if unit in p else p['default']


_FACTOR = {}


def stored_to_unit(pp, sub, stored, unit):
    """Reference conversion of a stored amount of one substance into a user unit (exact factor, computed once)."""
    key = (sub.name, sub.mol_weight, sub.density, sub.specific_activity, unit)
    f = _FACTOR.get(key)
    if f is None:
        rs = ref.rsub(sub)
        pf, base = ref.split_unit(unit)
        f = _FACTOR[key] = float(ref.base_amount(pp, rs, 1) * ref.per_base(rs, base) / pf)
    return stored * f


def total_in(pp, container, unit):
    pf, base = ref.split_unit(unit)
    return float(ref.measure(pp, container.contents, base) / pf)


def obj_total(pp, obj, unit):
    """Scalar for a container, per-well array for a plate."""
    if obj is None:
        return 0.0
    if e1.is_plate(obj):
        return numpy.array([[total_in(pp, w, unit) for w in row] for row in obj.wells], dtype=float)
    return total_in(pp, obj, unit)


class Ledger:
    def __init__(self, pp, vidx, program):
        self.pp, self.program = pp, program
        self.states = e2.prefix_states(pp, vidx, program)
        self.n = len(program)
        self.names = sorted(e2.expected_names(program))
        subs = e1.substances(pp, vidx, twins=False)
        subs['lipase_s'] = e1.substances(pp, vidx)['lipase_s']        # the twin that the E2 world holds (in B)
        self.subs = subs

    def amt(self, i, name, sub):
        return e2.amount(self.states[i].get(name), sub)

    def removed(self, i, sub):
        """Amount of `sub` discarded by step i (a remove step), from the state difference of the object it acts on."""
        act = self.program[i]
        if act['op'] != 'remove':
            return 0.0
        n = e1.refname(act['obj'])
        return self.amt(i, n, sub) - self.amt(i + 1, n, sub)

    def contribution(self, i, sub, dests):
        return sum(self.amt(i + 1, d, sub) - self.amt(i, d, sub) for d in dests) + self.removed(i, sub)

    def involved(self, i):
        """Number of stored amounts a step may have rounded (for the noise zone)."""
        act = self.program[i]
        k = 0
        for n in set(e2.mentions(act)) | ({e2.creates(act)} if e2.creates(act) else set()):
            o = self.states[i + 1].get(n)
            k += (o.wells.size if e1.is_plate(o) else 1) * 4 if o is not None else 0
        return max(k, 4)


def steps_of(layout, name, n):
    if name == 'all':
        return list(range(n))
    for s, a, b in layout:
        if s == name:
            return list(range(a, n if b is None else b))
    raise KeyError(name)


def dest_sets(ledger, results):
    names = ledger.names
    plates = [n for n in names if e1.is_plate(results[n])]
    sets = [('default', plates)]
    for n in names:
        sets.append((n, [n]))
    if len(names) >= 2:
        sets.append(('+'.join(names[:2]), names[:2]))
        sets.append(('+'.join(names[-2:]), names[-2:]))
    if len(names) >= 3:
        sets.append(('all-used', list(names)))
    seen, out = set(), []
    for label, s in sets:
        k = tuple(sorted(s))
        if label == 'default' or k not in seen:
            out.append((label, s))
            if label != 'default':
                seen.add(k)
    return out


# ---- C09 ---------------------------------------------------------------------------------------------------------------
def _ask_used(recipe, sub, tf, unit, dest_arg):
    try:
        return recipe.get_substance_used(sub, tf, unit, dest_arg), 'value'
    except ValueError:
        return None, 'ValueError'
    except Exception as e:  # noqa
        return None, type(e).__name__


def check_used(pp, ledger, layout_label, layout, b, full_units, memo):
    """get_substance_used under one stage layout, in the two clauses of the property:
    (i)  per-step accounting (layout 'per-step'): the answer for step i alone equals the ledger contribution c_i;
    (ii) stage arithmetic (every layout, every timeframe): the answer over T equals the sum over the steps of T.
    `memo` carries the verified single-step values from clause (i) to clause (ii)."""
    recipe, results = b['recipe'], b['results']
    n = ledger.n
    vs, q, dc = [], 0, 0
    program_text = ' ; '.join(e1.act_str(a) for a in ledger.program)
    lclass = layout_label.split('-cut')[0].rstrip('0123456789-') or layout_label
    dsets = dest_sets(ledger, results)
    if not full_units and not _G.get('thorough'):
        dsets = [d for d in dsets if '+' not in d[0]]
    for sname, sub in sorted(ledger.subs.items()):
        units = USED_UNITS[sname] if full_units else USED_UNITS[sname][:1]
        for dlabel, dests in dsets:
            dest_arg = "plates" if dlabel == 'default' else [results[d] for d in dests]
            dkind = 'default' if dlabel == 'default' else 'explicit'
            if full_units:
                # ---- clause (i): one stage per step -------------------------------------------------------------------
                for i in range(n):
                    c = ledger.contribution(i, sub, dests)
                    noise = ledger.involved(i) * 10.0 ** -pp.config.internal_precision * 10
                    ok_step = True
                    for unit in units:
                        q += 1
                        got, outcome = _ask_used(recipe, sub, f's{i}', unit, dest_arg)
                        case = {'layout': layout_label, 'query': ['used', sname, dlabel, f's{i}', unit]}
                        feat = f"step={e2.step_kind(ledger.program[i])},dest={dkind}"
                        where = (f"program [{program_text}], one stage per step: get_substance_used({sname}, step {i}, {unit!r}, "
                                 f"destinations={dlabel})")
                        if outcome not in ('value', 'ValueError'):
                            vs.append((f"get_substance_used | raises | {feat},exc={outcome}", f"{where} raised {outcome}", case,
                                       None, outcome))
                            ok_step = False
                        elif abs(c) <= noise:
                            if outcome == 'value' and abs(got) > 0.5 * 10.0 ** -prec(pp, unit) * 1.000001 + \
                                    abs(stored_to_unit(pp, sub, noise, unit)):
                                vs.append((f"get_substance_used | tracking-mismatch | {feat}",
                                           f"{where} = {got!r}, the ledger says nothing changed", case, 0.0, got))
                                ok_step = False
                            else:
                                dc += outcome == 'ValueError'
                        elif c < 0:
                            if outcome != 'ValueError':
                                vs.append((f"get_substance_used | net-decrease-not-refused | {feat}",
                                           f"{where} returned {got!r} although the destinations hold {-c!r} (storage units) less "
                                           f"after the step", case, 'ValueError', got))
                                ok_step = False
                        else:
                            want = stored_to_unit(pp, sub, c, unit)
                            if outcome == 'ValueError':
                                vs.append((f"get_substance_used | refused-net-gain | {feat}",
                                           f"{where} raised ValueError, the ledger says {want!r}", case, want, 'ValueError'))
                                ok_step = False
                            elif abs(got - want) > 0.5 * 10.0 ** -prec(pp, unit) * 1.000001 + 1e-9 * abs(want) + \
                                    abs(stored_to_unit(pp, sub, noise, unit)):
                                vs.append((f"get_substance_used | tracking-mismatch | {feat}",
                                           f"{where} = {got!r}, the ledger (gain of the destinations + discarded) says {want!r}",
                                           case, want, got))
                                ok_step = False
                    memo[(sname, dlabel, i)] = (c, noise, ok_step)
            # ---- clause (ii): stage arithmetic ---------------------------------------------------------------------------
            for tf in ['all'] + [st for st, _, _ in layout]:
                idx = steps_of(layout, tf, n)
                if full_units and len(idx) == 1 and tf != 'all':
                    continue                                  # judged by clause (i)
                if any(not memo[(sname, dlabel, i)][2] for i in idx):
                    continue                                  # a mis-tracked step was reported once, at its own step
                total = sum(memo[(sname, dlabel, i)][0] for i in idx)
                noise = sum(memo[(sname, dlabel, i)][1] for i in idx)
                unit = units[0]
                q += 1
                got, outcome = _ask_used(recipe, sub, tf, unit, dest_arg)
                case = {'layout': layout_label, 'query': ['used', sname, dlabel, tf, unit]}
                feat = f"layout={lclass},dest={dkind}"
                if full_units and tf == 'all' and dkind == 'default':
                    # arguments left out: the unit defaults to the configured display unit of moles (activity units for an
                    # enzyme), the destinations to all plates - the answer is the one with the arguments spelled out
                    du = 'U' if sub.is_enzyme() else pp.config.moles_display_unit
                    for how, call in (('no-unit', lambda: recipe.get_substance_used(sub, tf)),
                                      ('no-unit-kw', lambda: recipe.get_substance_used(substance=sub, timeframe=tf, destinations='plates')),
                                      ('no-timeframe', lambda: recipe.get_substance_used(sub, unit=du))):
                        q += 1
                        try:
                            got2, outcome2 = call(), 'value'
                        except ValueError:
                            got2, outcome2 = None, 'ValueError'
                        except Exception as e:  # noqa
                            got2, outcome2 = None, type(e).__name__
                        want2 = _ask_used(recipe, sub, tf, du, 'plates')
                        if (got2, outcome2) != want2:
                            vs.append((f"get_substance_used | default-arguments | form={how}",
                                       f"program [{program_text}]: get_substance_used({sname}) with arguments left out ({how}) = "
                                       f"{got2 if outcome2 == 'value' else outcome2!r}, with unit={du!r}, timeframe='all', "
                                       f"destinations='plates' spelled out it is {want2[0] if want2[1] == 'value' else want2[1]!r}",
                                       dict(case, form=how), want2[0] if want2[1] == 'value' else want2[1],
                                       got2 if outcome2 == 'value' else outcome2))
                if full_units and tf == 'all' and dkind == 'explicit':
                    # the destinations are declared as an Iterable: every form of the same collection gets the same answer
                    for form, arg in (('tuple', tuple(dest_arg)), ('generator', (x for x in dest_arg)),
                                      ('iterator', iter(list(dest_arg))), ('dict-values', {id(x): x for x in dest_arg}.values())):
                        q += 1
                        got2, outcome2 = _ask_used(recipe, sub, tf, unit, arg)
                        if (outcome2, got2) != (outcome, got):
                            vs.append((f"get_substance_used | destination-form | form={form}",
                                       f"program [{program_text}]: get_substance_used({sname}, 'all', {unit!r}, destinations=<{form} "
                                       f"of {dlabel}>) = {got2 if outcome2 == 'value' else outcome2!r}, with the list it is "
                                       f"{got if outcome == 'value' else outcome!r}",
                                       dict(case, form=form), got if outcome == 'value' else outcome,
                                       got2 if outcome2 == 'value' else outcome2))
                where = (f"program [{program_text}] with stages {layout}: get_substance_used({sname}, {tf!r}, {unit!r}, "
                         f"destinations={dlabel})")
                if outcome not in ('value', 'ValueError'):
                    vs.append((f"get_substance_used | raises | {feat},exc={outcome}", f"{where} raised {outcome}", case, None, outcome))
                elif abs(total) <= noise:
                    if outcome == 'value' and abs(got) > 0.5 * 10.0 ** -prec(pp, unit) * 1.000001 + abs(stored_to_unit(pp, sub, noise, unit)):
                        vs.append((f"get_substance_used | stage-arithmetic | {feat}",
                                   f"{where} = {got!r}, the steps {idx} sum to nothing", case, 0.0, got))
                    else:
                        dc += outcome == 'ValueError'
                elif total < 0:
                    if outcome != 'ValueError':
                        vs.append((f"get_substance_used | stage-arithmetic | {feat},net-decrease-not-refused",
                                   f"{where} returned {got!r} although the steps {idx} sum to a net decrease", case, 'ValueError', got))
                else:
                    want = stored_to_unit(pp, sub, total, unit)
                    if outcome == 'ValueError' or abs(got - want) > 0.5 * 10.0 ** -prec(pp, unit) * 1.000001 + 1e-9 * abs(want) + \
                            abs(stored_to_unit(pp, sub, noise, unit)):
                        vs.append((f"get_substance_used | stage-arithmetic | {feat}",
                                   f"{where} = {got if outcome == 'value' else outcome!r}, the single steps {idx} of this timeframe "
                                   f"sum to {want!r}", case, want, got if outcome == 'value' else outcome))
    return vs, q, dc


# ---- C15 ---------------------------------------------------------------------------------------------------------------
def check_flows(pp, ledger, layout_label, layout, b, full_units, memo):
    recipe, results = b['recipe'], b['results']
    n = ledger.n
    vs, q = [], 0
    timeframes = ['all'] + [s for s, _, _ in layout]
    program_text = ' ; '.join(e1.act_str(a) for a in ledger.program)
    units = FLOW_UNITS if full_units else FLOW_UNITS[:1]

    def touched(i, name):
        act = ledger.program[i]
        return name in e2.mentions(act) or name == e2.creates(act)
    for name in ledger.names:
        obj = results[name]
        okind = 'plate' if e1.is_plate(obj) else 'container'
        for tf in timeframes:
            idx = steps_of(layout, tf, n)
            used = [i for i in idx if touched(i, name)]
            if not used:
                continue          # the property speaks of objects used by at least one step of the timeframe
            first, last = used[0], used[-1]
            for unit in units:
                tolr = 0.5 * 10.0 ** -prec(pp, unit) * 1.000001
                before = obj_total(pp, ledger.states[first].get(name), unit)
                after = obj_total(pp, ledger.states[last + 1].get(name), unit)
                kinds = ','.join(sorted({e2.step_kind(ledger.program[i]) for i in used})) if len(used) == 1 else f"{len(used)}-steps"
                feat = f"object={okind},steps={kinds}"
                for mode, want in (('before', before), ('after', after)):
                    q += 1
                    case = {'layout': layout_label, 'query': ['remaining', name, tf, unit, mode]}
                    try:
                        got = recipe.get_amount_remaining(obj, tf, unit, mode)
                    except Exception as e:  # noqa
                        vs.append((f"get_amount_remaining | raises | {feat},exc={type(e).__name__}",
                                   f"program [{program_text}] layout {layout_label}: get_amount_remaining({name}, {tf!r}, {unit!r}, "
                                   f"{mode!r}) raised {type(e).__name__}: {e}", case, None, type(e).__name__))
                        continue
                    if got is None or numpy.shape(got) != numpy.shape(want) or \
                            numpy.any(numpy.abs(numpy.asarray(got, dtype=float) - want) > 1e-6 + 1e-9 * numpy.abs(want)):
                        vs.append((f"get_amount_remaining | tracking-mismatch | {feat},mode={mode}",
                                   f"program [{program_text}] layout {layout_label}: get_amount_remaining({name}, {tf!r}, {unit!r}, "
                                   f"{mode!r}) = {numpy.asarray(got).tolist() if got is not None else None!r}, the object holds "
                                   f"{numpy.asarray(want).tolist()!r} at that point", case,
                                   numpy.asarray(want).tolist(), numpy.asarray(got).tolist() if got is not None else None))
                # flows
                win = numpy.zeros(numpy.shape(before))
                wout = numpy.zeros(numpy.shape(before))
                for i in used:
                    d = obj_total(pp, ledger.states[i + 1].get(name), unit) - obj_total(pp, ledger.states[i].get(name), unit)
                    win = win + numpy.maximum(d, 0)
                    wout = wout + numpy.maximum(-d, 0)
                q += 1
                case = {'layout': layout_label, 'query': ['flows', name, tf, unit]}
                try:
                    fl = recipe.get_container_flows(obj, tf, unit)
                    gin, gout = numpy.asarray(fl['in'], dtype=float), numpy.asarray(fl['out'], dtype=float)
                except Exception as e:  # noqa
                    vs.append((f"get_container_flows | raises | {feat},exc={type(e).__name__}",
                               f"program [{program_text}] layout {layout_label}: get_container_flows({name}, {tf!r}, {unit!r}) "
                               f"raised {type(e).__name__}: {e}", case, None, type(e).__name__))
                    continue
                tolf = tolr * 1 + 1e-9 * numpy.abs(win + wout) + 1e-6
                if gin.shape != win.shape or numpy.any(numpy.abs(gin - win) > tolf) or numpy.any(numpy.abs(gout - wout) > tolf):
                    vs.append((f"get_container_flows | tracking-mismatch | {feat}",
                               f"program [{program_text}] layout {layout_label}: get_container_flows({name}, {tf!r}, {unit!r}) = "
                               f"in {gin.tolist()} out {gout.tolist()}, the ledger says in {numpy.asarray(win).tolist()} out "
                               f"{numpy.asarray(wout).tolist()}", case, [numpy.asarray(win).tolist(), numpy.asarray(wout).tolist()],
                               [gin.tolist(), gout.tolist()]))
                    continue
                if numpy.any(gin < -tolr) or numpy.any(gout < -tolr):
                    vs.append((f"get_container_flows | negative-flow | {feat}",
                               f"program [{program_text}]: negative flow in {gin.tolist()} out {gout.tolist()}", case, None, None))
                    continue
                if numpy.any(numpy.abs((gin - gout) - (after - before)) > 2 * tolr + 1e-6 + 1e-9 * numpy.abs(after)):
                    vs.append((f"get_container_flows | flow-identity | {feat}",
                               f"program [{program_text}] layout {layout_label}: in - out = {(gin - gout).tolist()} but the amount "
                               f"remaining changed by {numpy.asarray(after - before).tolist()} ({name}, {tf!r}, {unit!r})", case,
                               numpy.asarray(after - before).tolist(), (gin - gout).tolist()))
    return vs, q, 0


def renamed_objects(program):
    """Declared names whose container is renamed inside the recipe (dilute(new_name=...)) -> index of the renaming step."""
    return {e1.refname(a['obj']): i for i, a in enumerate(program) if a['op'] == 'dilute' and a.get('new_name')}


def reclassify_renamed(program, records):
    """Known finding (DESIGN 5, row 26): tracking is keyed by container NAME, so a container renamed inside the recipe is
    lost to get_substance_used / get_container_flows / get_amount_remaining. Every violation whose query involves such a
    container is reported under one signature per query function; everything else keeps its own signature."""
    ren = renamed_objects(program)
    if not ren:
        return records
    out = []
    for sig, msg, case, exp, got in records:
        q = case.get('query') or []
        involved = any(n in ren for part in q[1:3] if isinstance(part, str) for n in part.split('+')) or \
            (q and q[0] == 'used' and q[2] == 'all-used')
        if involved:
            fn = sig.split(' | ')[0]
            sig = f"{fn} | renamed-container | recipe.dilute(new_name=...)"
        out.append((sig, msg, case, exp, got))
    return out


def analyze(item):
    """One program under every stage layout. Returns (violation records, queries, dont-care, classes)."""
    which, prog_idx = item
    pp, vidx, voc = _G['pp'], _G['vidx'], _G['voc']
    program = [voc[i] for i in prog_idx]
    env.clear_caches(pp)
    ledger = Ledger(pp, vidx, program)
    out, queries, dcs = [], 0, 0
    classes = set()
    fn = check_used if which == 'C09' else check_flows
    memo = {}
    lays = e2.layouts(len(program))
    if not _G.get('thorough'):
        n = len(program)
        lays = [(l, y) for l, y in lays if (not l.startswith('one-stage') or l == f'one-stage-{min(1, n - 1)}-{max(1, n - 1)}')
                and not (l == 'per-step-last-open' and n >= 2)]
    for label, layout in lays:
        b = e2.bake(pp, vidx, program, layout)
        if not b['ok']:
            out.append(V(f"bake | stage-layout-changes-outcome | layout={label.split('-cut')[0]}",
                         f"program {[e1.act_str(a) for a in program]} bakes without stages but raises {b['exc']!r} with layout "
                         f"{label}", {'vidx': vidx, 'program': program, 'layout': label, 'query': None}))
            continue
        want_stages = {s for s, _, _ in layout} | {'all'}
        if set(b['recipe'].stages) != want_stages:
            out.append(V("Recipe.stages | wrong-stage-set | bake",
                         f"stages after bake are {sorted(b['recipe'].stages)}, expected {sorted(want_stages)}",
                         {'vidx': vidx, 'program': program, 'layout': label, 'query': None}))
            continue
        vs, q, dc = fn(pp, ledger, label, layout, b, label == 'per-step', memo)
        vs = reclassify_renamed(program, vs)
        queries += q
        dcs += dc
        for sig, msg, case, exp, got in vs:
            case = dict(case, vidx=vidx, program=program)
            out.append(V(sig, msg, case, exp, got))
        classes.add((label.split('-cut')[0], len(vs) > 0))
    # ---- a second recipe built from the results of the first (a non-initial state; objects that were already asked) -----
    nb_extra = 0
    if len(program) >= 2 and which == 'C09':
        vs, q = chained(pp, vidx, ledger, program)
        vs = reclassify_renamed(program[-1:], vs)          # (a rename by the last step: the known finding)
        nb_extra = 1
        queries += q
        for sig, msg, case, exp, got in vs:
            out.append(V(sig, msg, dict(case, vidx=vidx, program=program), exp, got))
        classes.add(('chained', len(vs) > 0))
    return out, queries, dcs, classes, len(lays) + len(program) + 1 + nb_extra


def chained(pp, vidx, ledger, program):
    """Recipe 1 = the program without its last step: baked and ASKED about every substance. Recipe 2 declares the objects that
    recipe 1 returned (and pristine ones it never saw), performs the last step alone and is asked about it: the answer is
    the ledger's contribution of that step, whatever the objects went through before and whoever looked at them."""
    n = len(program)
    last = program[-1]
    b1 = e2.bake(pp, vidx, program[:-1])
    if not b1['ok']:
        return [], 0
    r1 = b1['recipe']
    q = 0
    for sname, sub in sorted(ledger.subs.items()):          # looking must not change anything
        for dest in ['plates'] + [[o] for o in b1['results'].values()]:
            q += 1
            try:
                r1.get_substance_used(sub, 'all', USED_UNITS[sname][0], dest)
            except ValueError:
                pass
    subs, world2 = e2.world_after(pp, vidx, b1['results'], e2.outside_mentioned(program))
    r2 = pp.Recipe()
    names = []
    for x in e2.mentions(last):
        if x in world2 and x not in names:
            names.append(x)
    vs = []
    text = ' ; '.join(e1.act_str(a) for a in program)
    case = {'layout': 'chained', 'query': None}
    try:
        for x in names:
            r2.uses(world2[x])
        e2.add_step(pp, subs, world2, {}, r2, last)
        res2 = r2.bake()
    except Exception as e:  # noqa
        return [("bake | second-recipe-differs | raises",
                 f"program [{text}]: the last step alone, in a second recipe that uses the results of the first, raises "
                 f"{type(e).__name__}: {e}", case, 'returns', type(e).__name__)], q
    dnames = [x for x in res2 if x in ledger.names]
    for sname, sub in sorted(ledger.subs.items()):
        unit = USED_UNITS[sname][0]
        for d in dnames:
            c = ledger.contribution(n - 1, sub, [d])
            noise = ledger.involved(n - 1) * 10.0 ** -pp.config.internal_precision * 10
            q += 1
            got, outcome = _ask_used(r2, sub, 'all', unit, [res2[d]])
            case = {'layout': 'chained', 'query': ['used', sname, d, 'all', unit]}
            where = (f"program [{text}]: recipe 2 (uses the results of recipe 1, performs the last step): "
                     f"get_substance_used({sname}, 'all', {unit!r}, destinations={d})")
            tol = 0.5 * 10.0 ** -prec(pp, unit) * 1.000001 + abs(stored_to_unit(pp, sub, noise, unit))
            if outcome not in ('value', 'ValueError'):
                vs.append((f"get_substance_used | second-recipe | raises={outcome}", f"{where} raised {outcome}", case, None, outcome))
            elif abs(c) <= noise:
                if outcome == 'value' and abs(got) > tol:
                    vs.append(("get_substance_used | second-recipe | tracking-mismatch", f"{where} = {got!r}, the ledger says nothing "
                               f"changed", case, 0.0, got))
            elif c < 0:
                if outcome != 'ValueError':
                    vs.append(("get_substance_used | second-recipe | net-decrease-not-refused", f"{where} returned {got!r}", case,
                               'ValueError', got))
            else:
                want = stored_to_unit(pp, sub, c, unit)
                if outcome == 'ValueError' or abs(got - want) > tol + 1e-9 * abs(want):
                    vs.append(("get_substance_used | second-recipe | tracking-mismatch",
                               f"{where} = {got if outcome == 'value' else outcome!r}, the ledger says {want!r}", case, want,
                               got if outcome == 'value' else outcome))
            if vs:
                return vs, q
    return vs, q


def run(col, which, depth_quick=3, depth_thorough=4):
    pp = env.load()
    # quick: one valuation (by seed) to depth 3; thorough: that valuation to depth 4 and the other two to depth 3
    # (depth 4 under all three valuations is ~0.8 M programs x 12 layouts: 80 min for C09, ~2 h for C15 on 16 cores)
    if col.tier == 'quick':
        plan = [(col.seed % 3, depth_quick)]
    else:
        plan = [(col.seed % 3, depth_thorough)] + [(v, depth_quick) for v in range(3) if v != col.seed % 3]
    for v, depth in plan:
        voc, programs, failing = e2.successful_programs(pp, v, depth)
        _G.update(pp=pp, vidx=v, voc=voc, thorough=(col.tier == 'thorough'))
        res = par.pmap(analyze, [(which, p) for p in programs], chunk=40)      # BFS order: neighbours share prefixes
        queries = dcs = 0
        classes = set()
        bakes = 0
        for viols, q, dc, cl, nb in res:
            bakes += nb
            col.add(viols)
            queries += q
            dcs += dc
            classes |= cl
        col.count('states', len(programs))
        col.count('transitions', bakes)
        col.count('traces', len(programs))
        col.count('evaluations', queries)
        col.count('dont_care', dcs)
        kinds = {(tuple(sorted({e2.step_kind(voc[i]) for i in p})),) for p in programs}
        col.note_nontrivial({report.digest((v, k)) for k in kinds})
        col.cov.setdefault('explorations', []).append(
            {'valuation': v, 'vocabulary': len(voc), 'depth': depth, 'baked_programs': len(programs),
             'failing_programs_pruned': failing, 'bakes_incl_stage_layouts_and_prefixes': bakes,
             'tracking_queries_compared_with_ledger': queries, 'noise_zone_dont_care': dcs,
             'distinct_step_kind_sets': len(kinds)})
        mid = programs[len(programs) // 2]
        col.sample({'program': [e1.act_str(voc[i]) for i in mid], 'layouts': [l for l, _ in e2.layouts(len(mid))]})


def replay(case, which):
    pp = env.load()
    voc = case['program']
    _G.update(pp=pp, vidx=case['vidx'], voc=voc, thorough=True)
    out, _, _, _, _ = analyze((which, tuple(range(len(voc)))))
    return out
