"""Reference model: exact-rational chemistry, independent of pyplate's Unit.* code. Boring on purpose.

A substance is (kind, mw [g/mol], rho [g/mL, or U/mL for enzymes; None = infinite], sa [U/g]).
An amount is a Fraction in base units: mol for solids and liquids, U (activity) for enzymes.
"""
import re
from fractions import Fraction as F

# SI prefixes supported by the library's documentation (written out from the SI brochure, not copied from the code)
SI = {'n': F(1, 10 ** 9), 'u': F(1, 10 ** 6), 'µ': F(1, 10 ** 6), 'm': F(1, 1000), 'c': F(1, 100), 'd': F(1, 10),
      '': F(1), 'da': F(10), 'k': F(1000), 'M': F(10 ** 6)}
BASES = ('mol', 'g', 'L', 'U')


class RSub:
    __slots__ = ('name', 'kind', 'mw', 'rho', 'sa')

    def __init__(self, name, kind, mw=None, rho=None, sa=None):
        self.name, self.kind, self.mw, self.rho, self.sa = name, kind, mw, rho, sa

    def is_enzyme(self):
        return self.kind == 'enzyme'


def _frac(x):
    if x is None:
        return None
    if isinstance(x, float) and (x == float('inf')):
        return None
    return F(x)


def rsub(s):
    """Reference view of an implementation Substance (exact value of its float parameters)."""
    kind = 'enzyme' if s.is_enzyme() else 'liquid' if s.is_liquid() else 'solid'
    return RSub(s.name, kind, _frac(s.mol_weight), _frac(s.density), _frac(s.specific_activity))


def per_base(rs, unit):
    """How many `unit` (L, g, mol, U) one base unit (1 mol, or 1 U for an enzyme) of the substance is."""
    if rs.kind == 'enzyme':
        if unit == 'U':
            return F(1)
        if unit == 'g':
            return 1 / rs.sa
        if unit == 'L':
            return F(0) if rs.rho is None else 1 / rs.rho / 1000
        if unit == 'mol':
            return F(0)
    else:
        if unit == 'mol':
            return F(1)
        if unit == 'g':
            return rs.mw
        if unit == 'L':
            return F(0) if rs.rho is None else rs.mw / rs.rho / 1000
        if unit == 'U':
            return F(0)
    raise ValueError(unit)


def split_unit(unit):
    """'mmol' -> (SI factor, 'mol'); raises ValueError for anything that is not prefix+base."""
    for base in ('mol', 'U', 'L', 'g'):
        if unit.endswith(base):
            p = unit[:-len(base)]
            if p in SI:
                return SI[p], base
    raise ValueError(f"not a unit: {unit!r}")


def storage_prefix(pp, which):
    u = pp.config.moles_storage_unit if which == 'mol' else pp.config.volume_storage_unit
    return SI[u[:-3] if which == 'mol' else u[:-1]]


def base_amount(pp, rs, stored):
    """Stored float (moles in storage unit, or U) -> exact base amount."""
    if rs.kind == 'enzyme':
        return F(stored)
    return F(stored) * storage_prefix(pp, 'mol')


def to_stored(pp, rs, base):
    if rs.kind == 'enzyme':
        return base
    return base / storage_prefix(pp, 'mol')


def measure(pp, contents, unit, cache=None):
    """Total of a contents dict {impl Substance: stored float} in base `unit` ('L','g','mol','U')."""
    tot = F(0)
    for s, a in contents.items():
        rs = rsub(s)
        tot += base_amount(pp, rs, a) * per_base(rs, unit)
    return tot


def volume_stored(pp, contents):
    """Reference volume in the implementation's volume storage unit."""
    return measure(pp, contents, 'L') / storage_prefix(pp, 'L')


def conc(pp, contents, solute, num, den):
    """Concentration by definition: measure_num(solute part) / measure_den(whole solution), base units."""
    d = measure(pp, contents, den)
    if d == 0:
        return None
    a = contents.get(solute, 0)
    rs = rsub(solute)
    return base_amount(pp, rs, a) * per_base(rs, num) / d


def convert_factor(rs, from_unit, to_unit):
    """Exact factor f with  x from_unit == f*x to_unit  for this substance; None where undefined."""
    pf, bf = split_unit(from_unit)
    pt, bt = split_unit(to_unit)
    src = per_base(rs, bf)
    if src == 0:
        return None        # the source unit cannot measure this substance (e.g. an enzyme in mol)
    return pf / src * per_base(rs, bt) / pt


# ---- independent string parsers ------------------------------------------------------------------------------
_NUM = r'[+-]?(?:\d+\.?\d*|\.\d+)(?:[eE][+-]?\d+)?'


def parse_quantity(s):
    """'10 mL' -> (Fraction(1,100), 'L'). Also accepts 'M' as a base (molar), as the library does. Raises ValueError."""
    if not isinstance(s, str):
        raise ValueError("not a string")
    m = re.fullmatch(rf'({_NUM}) (\S+)', s)
    if not m:
        raise ValueError(f"malformed quantity {s!r}")
    val = F(m.group(1))
    unit = m.group(2)
    if unit == 'U':
        return val, 'U'
    for base in ('mol', 'g', 'L', 'M'):
        if unit.endswith(base) and unit[:-len(base)] in SI:
            return val * SI[unit[:-len(base)]], base
    raise ValueError(f"malformed quantity {s!r}")


def parse_concentration(s, wv='g/mL'):
    """-> (Fraction value in base units, numerator base, denominator base). Raises ValueError."""
    if not isinstance(s, str):
        raise ValueError("not a string")
    m = re.fullmatch(rf'({_NUM}) (\S+)', s)
    if m and '/' not in m.group(2) and '%' not in s:
        unit = m.group(2)
        if unit.endswith('M') and unit[:-1] in SI:
            return F(m.group(1)) * SI[unit[:-1]], 'mol', 'L'
        if unit.endswith('m') and unit[:-1] in SI:
            return F(m.group(1)) * SI[unit[:-1]] / 1000, 'mol', 'g'     # mol per kg
        raise ValueError(f"malformed concentration {s!r}")
    m = re.fullmatch(rf'({_NUM}) %(w/w|v/v|w/v)', s)
    if m:
        v = F(m.group(1)) / 100
        if m.group(2) == 'w/w':
            return v, 'g', 'g'
        if m.group(2) == 'v/v':
            return v, 'L', 'L'
        n, d = wv.split('/')
        (pn, bn), (pd, bd) = split_unit(n), split_unit(d)
        return v * pn / pd, bn, bd
    m = re.fullmatch(rf'({_NUM}) (\S+?)/(?:({_NUM}) )?(\S+)', s)
    if not m:
        raise ValueError(f"malformed concentration {s!r}")
    v = F(m.group(1))
    pn, bn = split_unit(m.group(2))
    pd, bd = split_unit(m.group(4))
    dv = F(m.group(3)) if m.group(3) else F(1)
    if dv == 0:
        raise ValueError("zero denominator")
    return v * pn / (dv * pd), bn, bd


# ---- tolerances -----------------------------------------------------------------------------------------------
def tol(pp, ref_value, k=0, scale=1.0):
    """Absolute tolerance for a stored amount after k+1 operations (DESIGN 3.2)."""
    prec = pp.config.internal_precision
    return float(10.0 ** (1 - prec) * (k + 1) * scale + 1e-9 * abs(float(ref_value)))


def close(pp, impl, ref_value, k=0, scale=1.0):
    return abs(float(impl) - float(ref_value)) <= tol(pp, ref_value, k, scale)


# ---- self-test against the documentation's worked examples -----------------------------------------------------
def selftest(pp):
    water = RSub('water', 'liquid', F('18.0153'), F(1))
    nacl = RSub('NaCl', 'solid', F('58.4428'), F(1))
    # users guide: 1 M NaCl, 100 mL needs 5.844 g NaCl (0.1 mol)
    assert round(float(F(1, 10) * per_base(nacl, 'g')), 3) == 5.844
    # 1 mol of water is 18.0153 mL
    assert per_base(water, 'L') * 1000 == F('18.0153')
    assert convert_factor(water, 'mL', 'mol') == 1 / F('18.0153') / 1
    assert convert_factor(nacl, 'mg', 'umol') == F(1, 1000) / F('58.4428') * 10 ** 6
    enz = RSub('e', 'enzyme', None, F(1), F(10000))          # 10 U/mg
    assert convert_factor(enz, 'mg', 'U') == 10
    assert convert_factor(enz, 'mol', 'U') is None
    assert parse_quantity('10 mL') == (F(1, 100), 'L')
    assert parse_concentration('0.01 mmol/10 uL') == (F(1), 'mol', 'L')
    assert parse_concentration('1 M') == (F(1), 'mol', 'L')
    assert parse_concentration('1 m') == (F(1, 1000), 'mol', 'g')
    assert parse_concentration('5 %w/w') == (F(1, 20), 'g', 'g')
    assert parse_concentration('10 U/mg') == (F(10000), 'U', 'g')
    for bad in ('10mL', '10  mL', ' 10 mL', '10 xL', '10 pL', 'abc mL', '10 mL/', '1 mol//L', '1 /L', ''):
        for f in (parse_quantity, parse_concentration):
            try:
                f(bad)
            except ValueError:
                continue
            raise AssertionError(f"{f.__name__} accepted {bad!r}")


# ---- exact linear algebra (feasibility classification only) -----------------------------------------------------
def solve_exact(rows, rhs):
    """Gaussian elimination over Fractions.  rows: list of lists, rhs: list.  Returns
    ('unique', x, max relative residual of redundant rows) | ('underdetermined',) | ('inconsistent', residual)."""
    m, n = len(rows), len(rows[0])
    A = [list(map(F, r)) + [F(b)] for r, b in zip(rows, rhs)]
    scale = [max([abs(v) for v in r[:-1]] + [abs(r[-1]), F(1, 10 ** 30)]) for r in A]
    piv_rows = []
    r = 0
    for c in range(n):
        p = None
        for i in range(r, m):
            if A[i][c] != 0:
                p = i
                break
        if p is None:
            continue
        A[r], A[p] = A[p], A[r]
        scale[r], scale[p] = scale[p], scale[r]
        pv = A[r][c]
        A[r] = [v / pv for v in A[r]]
        scale[r] = scale[r] / abs(pv)
        for i in range(m):
            if i != r and A[i][c] != 0:
                f = A[i][c]
                A[i] = [a - f * b for a, b in zip(A[i], A[r])]
        piv_rows.append(c)
        r += 1
        if r == m:
            break
    rank = r
    resid = F(0)
    for i in range(rank, m):
        # a redundant row reduced to 0 = b': relative residual
        resid = max(resid, abs(A[i][-1]) / scale[i])
    if rank < n:
        return ('underdetermined',)
    x = [A[i][-1] for i in range(n)]
    return ('unique', x, resid)
