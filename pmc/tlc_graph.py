"""Run TLC on models/RecipeLifecycle.tla, dump the labelled state graph and parse it (E6)."""
import os
import re
import shutil
import subprocess
import tempfile

from . import env

MODELS = os.path.join(env.VERIF, 'models')


# ---- a tiny parser for the TLA+ values TLC prints (strings, naturals, sets, tuples) -------------------------
def parse_value(s, i=0):
    while s[i] in ' \n':
        i += 1
    c = s[i]
    if c == '"':
        j = s.index('"', i + 1)
        return s[i + 1:j], j + 1
    if c.isdigit():
        j = i
        while j < len(s) and s[j].isdigit():
            j += 1
        return int(s[i:j]), j
    if c == '{' or s.startswith('<<', i):
        close = '}' if c == '{' else '>>'
        i += 1 if c == '{' else 2
        items = []
        while True:
            while s[i] in ' \n':
                i += 1
            if s.startswith(close, i):
                i += len(close)
                break
            v, i = parse_value(s, i)
            items.append(v)
            while s[i] in ' \n':
                i += 1
            if s[i] == ',':
                i += 1
        return (frozenset(items) if c == '{' else tuple(items)), i
    raise env.InternalError(f"cannot parse TLA value at {s[i:i + 40]!r}")


def parse_state(label):
    st = {}
    for line in label.split('\n'):
        line = line.strip()
        if not line:
            continue
        m = re.match(r'/\\ (\w+) = (.*)$', line)
        if not m:
            raise env.InternalError(f"cannot parse state line {line!r}")
        st[m.group(1)], _ = parse_value(m.group(2))
    return st


def parse_action(label):
    m = re.match(r'(\w+)(?:\((.*)\))?$', label)
    if not m:
        raise env.InternalError(f"cannot parse action label {label!r}")
    name, args = m.group(1), []
    if m.group(2):
        s, i = m.group(2), 0
        while i < len(s):
            v, i = parse_value(s, i)
            args.append(v)
            while i < len(s) and s[i] in ' ,':
                i += 1
    return name, tuple(args)


def _unescape(s):
    return s.replace('\\\\', '\x00').replace('\\n', '\n').replace('\\"', '"').replace('\x00', '\\')


_NODE = re.compile(r'^(-?\d+) \[label="((?:[^"\\]|\\.)*)"')
_EDGE = re.compile(r'^(-?\d+) -> (-?\d+) \[label="((?:[^"\\]|\\.)*)"')


def run_tlc(cfg_name):
    """Returns (states: id -> dict, edges: list[(src, action, args, dst)], init id, stats dict)."""
    if shutil.which('tlc') is None:
        raise env.InternalError("tlc not found on PATH")
    work = tempfile.mkdtemp(prefix='pmc_tlc_')
    try:
        shutil.copy(os.path.join(MODELS, 'RecipeLifecycle.tla'), work)
        shutil.copy(os.path.join(MODELS, cfg_name), work)
        cmd = ['tlc', '-workers', '1', '-noGenerateSpecTE', '-deadlock', '-metadir', os.path.join(work, 'meta'),
               '-config', cfg_name, '-dump', 'dot,actionlabels', os.path.join(work, 'graph'), 'RecipeLifecycle.tla']
        p = subprocess.run(cmd, cwd=work, capture_output=True, text=True, timeout=3600)
        out = p.stdout + p.stderr
        if 'Model checking completed. No error has been found.' not in out:
            raise env.InternalError("TLC did not complete cleanly on the lifecycle model:\n" + out[-3000:])
        m = re.search(r'(\d+) states generated, (\d+) distinct states found', out)
        d = re.search(r'depth of the complete state graph search is (\d+)', out)
        stats = {'tlc_states_generated': int(m.group(1)), 'tlc_distinct_states': int(m.group(2)),
                 'tlc_depth': int(d.group(1)) if d else None, 'cfg': cfg_name}
        states, edges, init = {}, [], None
        acts = {}
        with open(os.path.join(work, 'graph.dot')) as f:
            for line in f:
                me = _EDGE.match(line)
                if me:
                    lab = me.group(3)
                    a = acts.get(lab)
                    if a is None:
                        a = acts[lab] = parse_action(_unescape(lab))
                    edges.append((int(me.group(1)), a[0], a[1], int(me.group(2))))
                    continue
                mn = _NODE.match(line)
                if mn:
                    sid = int(mn.group(1))
                    if sid not in states:
                        states[sid] = parse_state(_unescape(mn.group(2)))
                        if 'style = filled' in line:
                            init = sid
        if len(states) != stats['tlc_distinct_states']:
            raise env.InternalError(f"dot dump has {len(states)} states, TLC reported {stats['tlc_distinct_states']}")
        if len(edges) != stats['tlc_states_generated'] - 1:
            raise env.InternalError(f"dot dump has {len(edges)} edges, TLC generated {stats['tlc_states_generated']} states")
        if init is None:
            raise env.InternalError("no initial state in the dump")
        return states, edges, init, stats
    finally:
        shutil.rmtree(work, ignore_errors=True)
