"""Self-test run by setup.sh: import from the right tree, evidence schema, reference model vs documentation."""
import json
import os
import sys

from . import env


def main():
    pp = env.load()
    assert os.path.abspath(pp.__file__).startswith(os.path.abspath(env.SRC))
    try:
        from . import ref
        ref.selftest(pp)
    except ImportError:
        pass
    print("selftest ok:", pp.__file__)


if __name__ == '__main__':
    main()
