"""Reference resolver for well selectors, written from docs/source/users_guide/locations.rst (DESIGN Appendix B).

resolve(row_labels, col_labels, sel) -> ('ok', [(r, c), ...] 0-based in selection order, shape)
                                      | ('reject', why) | ('dontcare', why)
"""

OK, REJECT, DONTCARE = 'ok', 'reject', 'dontcare'


class _Reject(Exception):
    pass


class _DontCare(Exception):
    pass


def _single(spec, labels):
    if isinstance(spec, bool):
        raise _DontCare('bool index')
    if isinstance(spec, int):
        if 1 <= spec <= len(labels):
            return spec - 1
        raise _Reject('index out of range')
    if isinstance(spec, str):
        if spec in labels:
            return labels.index(spec)
        raise _Reject('unknown label')
    raise _Reject('bad index type')


def _axis(spec, labels):
    """-> (list of positions, is_single)"""
    if isinstance(spec, slice):
        a, b, k = spec.start, spec.stop, spec.step
        if isinstance(k, bool):
            raise _DontCare('bool step')
        if k is not None and not isinstance(k, int):
            raise _Reject('bad step type')
        lo = 0 if a is None else _single(a, labels)
        hi = len(labels) - 1 if b is None else _single(b, labels)
        if k is not None and k <= 0:
            raise _DontCare('non-positive step')
        if lo > hi:
            raise _DontCare('start after stop')
        return list(range(lo, hi + 1, k or 1)), False
    return [_single(spec, labels)], True


def _one_well(elem, rows, cols):
    if isinstance(elem, str):
        if ':' not in elem:
            raise _Reject('list element is not a single well')
        parts = elem.split(':')
        if len(parts) != 2 or not parts[0] or not parts[1]:
            raise _Reject("malformed 'r:c'")
        return _single(parts[0], rows), _single(parts[1], cols)
    if isinstance(elem, tuple):
        if len(elem) != 2:
            raise _Reject('tuple must have two entries')
        if isinstance(elem[0], slice) or isinstance(elem[1], slice):
            raise _Reject('list element is not a single well')
        return _single(elem[0], rows), _single(elem[1], cols)
    raise _Reject('list element is not a single well')


def resolve(rows, cols, sel):
    try:
        if isinstance(sel, bool):
            raise _DontCare('bool index')
        if isinstance(sel, str) and ':' in sel:
            r, c = _one_well(sel, rows, cols)
            return OK, [(r, c)], (1, 1)
        if isinstance(sel, list):
            if not sel:
                raise _DontCare('empty list')
            wells = [_one_well(e, rows, cols) for e in sel]
            if len(set(wells)) != len(wells):
                raise _DontCare('duplicate wells in a list')
            return OK, wells, (len(wells),)
        if isinstance(sel, tuple):
            if len(sel) != 2:
                raise _Reject('tuple must have two entries')
            rs, _ = _axis(sel[0], rows)
            cs, _ = _axis(sel[1], cols)
        elif isinstance(sel, (int, str, slice)):
            rs, _ = _axis(sel, rows)
            cs = list(range(len(cols)))
        else:
            raise _Reject('bad selector type')
        return OK, [(r, c) for r in rs for c in cs], (len(rs), len(cols) if False else len(cs))
    except _Reject as e:
        return REJECT, str(e), None
    except _DontCare as e:
        return DONTCARE, str(e), None


def ev(expr):
    """Selectors are stored as Python expressions (JSON-able strings): ev("(1, slice(None, 2))")."""
    import numpy
    return eval(expr, {'__builtins__': {}, 'slice': slice, 'None': None, 'True': True, 'False': False, 'np': numpy})


def default_rows(n):
    out = []
    for i in range(1, n + 1):
        s = ''
        while i > 0:
            i -= 1
            s = chr(ord('A') + i % 26) + s
            i //= 26
        out.append(s)
    return out


def default_cols(n):
    return [str(i + 1) for i in range(n)]
