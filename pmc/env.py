"""Environment control: which source tree, which pyplate.yaml, determinism.

Every source of nondeterminism the library has is owned here:
  * the configuration file (PYPLATE_CONFIG, then the *current directory*, then $HOME, then the package);
  * Python's string hash seed (set by ./vcheck, verified here);
  * the import path (PMC_SRC first; asserted after import).
"""
import atexit
import hashlib
import json
import os
import shutil
import subprocess
import sys
import tempfile

VERIF = os.path.dirname(os.path.dirname(os.path.abspath(__file__)))
SRC = os.environ.get('PMC_SRC', '/repo')

_pp = None
_cfgdir = None


class InternalError(Exception):
    """An error of the verification machinery itself (exit 2), never a verdict about the code."""


def _scratch_root():
    # scratch space lives outside /repo and /verif and is removed at exit
    d = tempfile.mkdtemp(prefix='pmc_')
    atexit.register(shutil.rmtree, d, True)
    return d


def make_config_dir(overrides=None, root=None):
    """Write a pyplate.yaml derived from the *current tree's* shipped file, with `overrides` applied."""
    import yaml
    with open(os.path.join(SRC, 'pyplate', 'pyplate.yaml')) as f:
        cfg = yaml.safe_load(f)
    for k, v in (overrides or {}).items():
        if k == 'precisions':
            cfg['precisions'].update(v)
        else:
            cfg[k] = v
    root = root or _scratch_root()
    d = tempfile.mkdtemp(prefix='cfg_', dir=root)
    with open(os.path.join(d, 'pyplate.yaml'), 'w') as f:
        yaml.safe_dump(cfg, f)
    return d


def load(overrides=None):
    """Import pyplate from PMC_SRC under a controlled configuration. Idempotent per process."""
    global _pp, _cfgdir
    if _pp is not None:
        return _pp
    if overrides is None and os.environ.get('PMC_CONFIG_OVERRIDES'):
        overrides = json.loads(os.environ['PMC_CONFIG_OVERRIDES'])
    if os.environ.get('PYTHONHASHSEED') in (None, '', 'random'):
        raise InternalError("PYTHONHASHSEED must be fixed (run through ./vcheck)")
    if os.path.exists(os.path.join(os.getcwd(), 'pyplate.yaml')):
        raise InternalError("a pyplate.yaml in the current directory would shadow the controlled configuration")
    root = _scratch_root()
    _cfgdir = make_config_dir(overrides, root)
    home = os.path.join(root, 'home')
    os.makedirs(home, exist_ok=True)
    os.environ['PYPLATE_CONFIG'] = _cfgdir
    os.environ['HOME'] = home
    os.environ.setdefault('MPLCONFIGDIR', os.path.join(root, 'mpl'))
    sys.path.insert(0, SRC)
    for m in [m for m in sys.modules if m == 'pyplate' or m.startswith('pyplate.')]:
        del sys.modules[m]
    import pyplate
    if not os.path.abspath(pyplate.__file__).startswith(os.path.abspath(SRC) + os.sep):
        raise InternalError(f"pyplate imported from {pyplate.__file__}, expected under {SRC}")
    import pyplate.pyplate as impl
    _pp = impl
    return _pp


def clear_caches(pp=None):
    """functools.cache on Container methods is keyed by mutable objects: clear between transitions."""
    pp = pp or _pp
    C = pp.Container
    for n in ('dataframe', '_repr_html_', '__repr__', 'has_liquid', 'get_substances'):
        f = getattr(C, n, None)
        if hasattr(f, 'cache_clear'):
            f.cache_clear()


def tree_identity():
    def sha(p):
        try:
            with open(os.path.join(SRC, p), 'rb') as f:
                return hashlib.sha256(f.read()).hexdigest()[:16]
        except OSError:
            return None
    try:
        head = subprocess.run(['git', '-C', SRC, 'rev-parse', 'HEAD'], capture_output=True, text=True).stdout.strip()
        dirty = bool(subprocess.run(['git', '-C', SRC, 'status', '--porcelain', '--', 'pyplate'],
                                    capture_output=True, text=True).stdout.strip())
    except OSError:
        head, dirty = None, None
    return {'src': SRC, 'head': head, 'dirty': dirty,
            'sha256_16': {p: sha(p) for p in ('pyplate/pyplate.py', 'pyplate/slicer.py', 'pyplate/__init__.py',
                                               'pyplate/pyplate.yaml')}}


def nprocs():
    try:
        return max(1, int(os.environ.get('PMC_PROCS', '') or (os.cpu_count() or 1)))
    except ValueError:
        return os.cpu_count() or 1
