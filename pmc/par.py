"""Deterministic parallel map (fork pool; results are returned in input order, independent of worker timing)."""
import multiprocessing as mp
import os

from . import env

_FUNC = None


def _call(chunk):
    return [_FUNC(x) for x in chunk]


def pmap(func, items, chunk=None, procs=None):
    """Ordered map of a module-level or closure function over items, split in contiguous chunks."""
    global _FUNC
    items = list(items)
    procs = procs or env.nprocs()
    if procs <= 1 or len(items) < 4:
        return [func(x) for x in items]
    if chunk is None:
        chunk = max(1, min(256, len(items) // (procs * 8) or 1))
    chunks = [items[i:i + chunk] for i in range(0, len(items), chunk)]
    _FUNC = func  # inherited by fork
    ctx = mp.get_context('fork')
    with ctx.Pool(procs) as pool:
        out = pool.map(_call, chunks, chunksize=1)
    _FUNC = None
    return [y for part in out for y in part]
